from vlib.runner import Job

U = 'harness.union_steps:'

META = dict(
    explanation='Bounded symbolic verification of C13 as an inductive step '
    'on the union record: from an ARBITRARY well-formed Union (1-3 members, '
    'symbolic points, symbolic volumes, may-split flags constrained only by '
    'the invariant, optional proposal cache and counters) the real '
    'Union.split (with and without overlap permission), Union.trim and '
    'Union.sample are executed symbolically; the Gaussian-mixture fit is '
    'havocked (arbitrary real scores, so every labelling and every top-up '
    'order is a path), member ellipsoids are contract stubs. z3 must show on '
    'every path: four parallel records of equal length, volume record = '
    'member volume, small members blocked, the points of all members are '
    'exactly the construction points not trimmed away, both products of a '
    'split hold at least n_points_min points, a successful split does not '
    'increase the summed volume (nlsat on the linear twin), a refused '
    'operation leaves members and points unchanged, sampling state reset '
    'after a successful split / trim, cached proposals still contained, and '
    'no operation raises. Induction covers operation sequences of any '
    'length.',
    bounds=dict(members='1-3', points_per_member='2-5 (quick: split of 4 '
                'points, thorough: 5-6)', n_dim='1 (quick) / 2 (thorough)',
                n_points_min='2 / 3', block='proposal block of 2 rows, <= 2 '
                'rounds'),
    functions=['bounds/union.py:Union.split', 'Union.trim', 'Union.sample',
               'Union.contains', 'Union.log_v', 'Union.reset',
               'ellipsoids_overlap'],
    stubs=['member ellipsoid: contains uninterpreted, compute(points) '
           'encloses its points and raises ValueError for too few points '
           '(like the real one), sample(n) inside, log_v a real',
           'sklearn GaussianMixture / scipy multivariate_normal.logpdf: '
           'arbitrary real scores (havoc), weights > 0',
           'scipy.optimize.minimize: arbitrary result (overlap test havoc)',
           'rng: multinomial / shuffle / uniforms arbitrary'],
    outside=['that the real GMM can produce every score matrix (findings '
             'from havocked scores are confirmed with the real sklearn before '
             'they are recorded)', 'more members / points than the bounds'],
    assumptions=['induction over operations'])


def jobs(tier):
    thorough = tier == 'thorough'
    jobs = []

    def add(h, cfg, **kw):
        jobs.append(Job(U + h, cfg, pkg_key='bounds',
                        block=kw.get('block', 2),
                        max_paths=kw.get('max_paths', 8000)))
    for unit in (True, False):
        add('split', dict(d=1, npm=2, sizes=[4], unit=unit))
        add('split', dict(d=1, npm=2, sizes=[4, 2], cache=1, unit=unit))
        add('split', dict(d=1, npm=2, sizes=[2, 4, 3], unit=unit))
    add('split', dict(d=1, npm=2, sizes=[4, 3], allow_overlap=False,
                      unit=False))
    add('split', dict(d=1, npm=2, sizes=[2, 3]))          # all blocked
    # five points: a top-up can shrink the larger cluster below 2*npm
    add('split', dict(d=1, npm=2, sizes=[5], unit=False), max_paths=30000)
    for sizes in ([2], [2, 3], [2, 3, 2], [4, 2, 2]):
        add('trim', dict(d=1, npm=2, sizes=sizes, cache=1))
        add('trim', dict(d=1, npm=2, sizes=sizes, unit=False))
    add('sample', dict(d=1, npm=2, sizes=[2, 2], n=1), block=1)
    # record created by Union.compute (n_points_min = d + 1 = 2), then a split
    for n in (2, 3, 4):
        jobs.append(Job('harness.nautilus_steps:union_compute_rng',
                        dict(d=1, n=n, unit=False), pkg_key='bounds',
                        block=1, max_paths=8000))
    add('sample', dict(d=1, npm=2, sizes=[2], n=2, cache=1, unit=False))
    if thorough:
        add('split', dict(d=1, npm=2, sizes=[5, 2], cache=1), max_paths=30000)
        add('split', dict(d=2, npm=3, sizes=[6]), max_paths=60000)
        add('split', dict(d=2, npm=3, sizes=[6, 3], allow_overlap=False,
                          unit=False), max_paths=60000)
        add('trim', dict(d=2, npm=3, sizes=[3, 4, 3, 3], cache=2))
        add('sample', dict(d=2, npm=3, sizes=[3, 3, 3], n=2, cache=1), block=1,
            max_paths=30000)
    return jobs
