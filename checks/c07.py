from vlib.runner import Job

S = 'harness.bounds_sound:'
U = 'harness.union_steps:'
N = 'harness.nautilus_steps:'
B = {'union': 1, 'nautilus': 2}

META = dict(
    explanation='Bounded symbolic verification of C07 over the reals, per '
    'class, composed by contracts. UnitCube: contains(sample) and contains = '
    '[0,1)^d. Ellipsoid: the real sample() followed by the real transform() '
    'lands strictly inside the unit ball - two nlsat lemmas (matrix identity '
    'from B_inv B = I; radius from the defining equations of sqrt and the '
    'd-th root); the real compute() (MVEE tail with ARBITRARY positive '
    'weights, scaling, enlargement, Cholesky and inverse by their defining '
    'equations) encloses every construction point (d = 1). Mixture: '
    'sample/contains on every dim_cube pattern; compute() with the '
    'dimension-selection loops forked on havocked volumes encloses the '
    'construction points, i.e. the ellipsoid is fitted on exactly the '
    'columns it is evaluated on. Union (members = contract stubs): '
    'contains(sample), rows in the cube when restricted, cached proposals '
    'stay contained across split/trim, members enclose their points after '
    'split. NeuralBound.contains implies its outer ellipsoid. NautilusBound '
    '(outer union of stubs, neural bounds as predicates, with and without '
    'phase shift, serial and pool branch): sample within contains and the '
    'cube, contains implies outer_bound.contains(shift(x)).',
    bounds=dict(ellipsoid_sample='d <= 2 (d = 3 is attempted in the thorough '
                'tier; its frame lemma comes back unknown from nlsat and is '
                'reported INCONCLUSIVE, not claimed)',
                ellipsoid_compute='d = 1, <= 3 points (with 4 the nlsat '
                'queries do not finish in 25 minutes)',
                mixture='d <= 2 (d = 3: as above)', union='1-3 members, d <= 2',
                nautilus='d = 1, cache <= 1, block 2, bounded rounds'),
    functions=['bounds/basic.py:UnitCube.*', 'Ellipsoid.compute/sample/'
               'transform/contains', 'minimum_volume_enclosing_ellipsoid '
               '(tail)', 'UnitCubeEllipsoidMixture.compute/sample/contains',
               'bounds/union.py:Union.sample/contains/split/trim',
               'bounds/neural.py:NeuralBound.contains',
               'bounds/nautilus.py:NautilusBound.sample/contains/'
               '_reset_and_sample', 'bounds/periodic.py:PhaseShift.transform'],
    stubs=['member bounds of Union by contract (enclosure and sample inside, '
           'proved here on the real Ellipsoid / Mixture)',
           'Khachiyan iterations skipped: weights arbitrary positive, sum 1',
           'np.linalg.inv / cholesky: fresh matrices with defining equations',
           'networks: uninterpreted', 'pool.map: order-preserving on copies'],
    outside=['float64 rounding (a sample can miss contains by one ulp)',
             'Ellipsoid.compute enclosure for d >= 2 (nlsat does not finish)',
             'Khachiyan convergence', 'dimensions above 3'],
    assumptions=['normal draws are not all zero'])


def jobs(tier):
    thorough = tier == 'thorough'
    jobs = []

    def add(h, cfg, block=2, **kw):
        jobs.append(Job(h, cfg, pkg_key='bounds', block=block,
                        max_paths=kw.get('max_paths', 4000),
                        nra_timeout_ms=kw.get('nra', 60000)))
    for d in (1, 2, 3):
        add(S + 'cube', dict(d=d))
    for d in ((1, 2, 3) if thorough else (1, 2)):
        add(S + 'ell_sample', dict(d=d), nra=180000)
    add(S + 'ell_compute', dict(d=1, n=2))
    add(S + 'ell_compute', dict(d=1, n=3))
    pats = [[True], [False], [True, False], [False, False], [True, True]]
    if thorough:
        pats += [[False, True, False], [False, False, False],
                 [True, False, True]]
    for p in pats:
        add(S + 'mix_sample', dict(pattern=p), nra=180000)
    add(N + 'mixture_compute', dict(d=1, n=2))
    add(N + 'mixture_compute', dict(d=2, n=3))
    if thorough:
        add(N + 'mixture_compute', dict(d=2, n=4), max_paths=20000)
    for n_net in (0, 1, 2):
        add(N + 'neural_contains', dict(d=2, n_net=n_net))
    # union (members by contract)
    for unit in (True, False):
        add(U + 'sample', dict(d=1, npm=2, sizes=[2, 2], n=1, unit=unit),
            block=1)
        add(U + 'sample', dict(d=1, npm=2, sizes=[2], n=2, cache=1,
                               unit=unit))
    add(U + 'split', dict(d=1, npm=2, sizes=[4, 2], cache=1))
    add(U + 'trim', dict(d=1, npm=2, sizes=[2, 3, 2], cache=1))
    add(U + 'trim', dict(d=1, npm=2, sizes=[2, 3], cache=1))
    # nautilus bound
    add(N + 'nb_contains', dict(d=2, n=1, sizes=[3]), block=B)
    add(N + 'nb_contains', dict(d=2, n=1, sizes=[3], periodic=[0]), block=B)
    add(N + 'nb_contains', dict(d=2, n=2, sizes=[3, 3], periodic=[1],
                                n_neural=2), block=B)
    add(N + 'nb_sample', dict(d=1, n=1, cache=1), block=B)
    add(N + 'nb_sample', dict(d=1, n=2, cache=1), block=B)
    add(N + 'nb_sample', dict(d=1, n=2, cache=1, periodic=[0]), block=B)
    add(N + 'nb_sample', dict(d=1, n=1, cache=0, n_neural=2), block=B)
    add(N + 'nb_pool_merge', dict(d=1, pool=2, unroll=4, members_in_cube=True,
                                  open_uniform=True), block=B)
    add(N + 'nb_pool_merge', dict(d=1, pool=2, unroll=3, members_in_cube=True,
                                  open_uniform=True, periodic=[0]), block=B)
    add(N + 'nb_sample', dict(d=1, n=1, cache=0, pool=2, unroll=4,
                              members_in_cube=True, open_uniform=True,
                              periodic=[0]), block=B, max_paths=6000)
    # with proposals outside the cube: the outer bound rejects in the workers
    add(N + 'nb_pool_merge', dict(d=1, pool=2, unroll=3, open_uniform=True),
        block=B, max_paths=6000)
    # the unions of a nautilus bound are built from exactly the live points
    add(N + 'nb_compute', dict(d=1, n=3, periodic=[0]))
    add(N + 'nb_compute', dict(d=2, n=2))
    if thorough:
        add(U + 'sample', dict(d=2, npm=3, sizes=[3, 3], n=2, cache=1),
            block=1, max_paths=20000)
        add(N + 'nb_sample', dict(d=1, n=1, cache=0, pool=2, unroll=8,
                                  members_in_cube=True, open_uniform=True),
            block=B, max_paths=30000)
    return jobs
