from vlib.runner import Job
from . import common

META = dict(
    explanation='Bounded symbolic verification of C12. (1) From an explored '
    'invariant state, one or two iterations of the real run() (both '
    'sampling branches) keep explored true, the list of bounds identical '
    '(same objects), never enter add_bound, keep every stored array as a '
    'prefix of the new one (term identity per cell) and every shell '
    'non-empty. (2) The end-of-exploration block of run() from arbitrary '
    'unexplored states (including empty shells): per-shell vectors shrink '
    'consistently, remaining shells non-empty, the exploration cut is at '
    'the current lengths / proposal counts. (3) Toggle: from an explored '
    'state the real discard_exploration setter is switched on and off: on '
    'shows exactly the post-exploration suffixes in posterior(); off again '
    'every statistic and accessor is term-identical to the original (same '
    'operations on the same operands = bit-identical); a non-bool is '
    'rejected and changes nothing.',
    bounds=dict(K='1/2', states='<= 3 shells, <= 3 samples per shell'),
    functions=['sampler.py:Sampler.run', 'discard_exploration setter',
               'Sampler.write / write_shell_update / resume (toggle before '
               'a batch, toggle after a resume)',
               'Sampler.update_shell_info', 'Sampler.posterior',
               'Sampler.add_samples'],
    stubs=common.SAMPLER_STUBS,
    outside=['more than one toggle between two batches; histories longer '
             'than toggle - batch - resume - toggle (each link is one of the '
             'inductive steps checked)'],
    assumptions=[])

TOG = 'harness.sampler_toggle:toggle'


def toggle_jobs(tier):
    jobs = []
    states = [dict(m=[2, 1], end_exp=[1, 1]), dict(m=[2, 2], end_exp=[1, 0]),
              dict(m=[1, 1], end_exp=[1, 1]),
              dict(m=[2, 1], end_exp=[2, 0], neg_inf=[[0, 1]])]
    if tier == 'thorough':
        states += [dict(m=[2, 1, 2], end_exp=[1, 0, 2]),
                   dict(m=[3, 2], end_exp=[1, 1]),
                   dict(m=[2, 2], end_exp=[0, 0], blobs='scalar')]
    for s in states:
        for start in (False, True):
            jobs.append(Job(TOG, dict(s, explored=True, discard=start),
                            pkg_key='sampler'))
    return jobs


def jobs(tier):
    # toggle after a resume: the file-mirrors-state harness of C05 flips the
    # flag on the live and on the resumed object and compares every field
    mir = [Job('harness.sampler_file:mirror',
               dict(m=[2, 1], explored=True, end_exp=[1, 0], discard=d,
                    n_batch=1, K=1), pkg_key='sampler', max_paths=8000,
               split=9)
           for d in (False, True)]
    # toggle between two run() slices, then a batch, then a resume
    mir += [Job('harness.sampler_file:mirror',
                dict(m=[1, 1], explored=True, end_exp=[1, 1], discard=disc,
                     n_batch=1, K=1, toggle_before=True),
                pkg_key='sampler', max_paths=8000, split=9)
            for disc in (False, True)]
    return (common.run_jobs(tier, ['C12'], which=('explored', 'end', 'bound'))
            + toggle_jobs(tier) + common.add_samples_jobs(tier, ['C12'])
            + mir)
