from vlib.runner import Job

S = 'harness.bounds_sound:'
U = 'harness.union_steps:'
N = 'harness.nautilus_steps:'
B = {'union': 1, 'nautilus': 2}

META = dict(
    explanation='Deterministic certificate of C08 by bounded symbolic '
    'execution (the empirical-histogram reading is sampling and is not this '
    'family). From the real Union.sample run on 1-3 member stubs with a '
    'proposal block of 1-2 rows we read off the vector handed to '
    'multinomial and prove p_j * sum_k V_k = V_j (nlsat, linear twin); for '
    'every proposal, whether it was accepted, its multiplicity m (number of '
    'members containing it, forked) and its uniform u: accepted => u >= '
    '1-1/m, rejected => u <= 1-1/m, one own draw per proposal - so a point '
    'of multiplicity m is proposed with density sum_j p_j/V_j = m / sum V and '
    'kept with probability 1/m: density 1/sum V everywhere in the union; '
    'rows outside the cube count as rejected; counters advance by the block '
    'and by block - accepted; exp(log_v) * n_sample = sum V * (n_sample - '
    'n_reject). The same for NautilusBound (network filter; volume = outer '
    'volume x acceptance) and its pool branch: after merging W worker '
    'results every counter at both levels is the sum and the cache is the '
    'concatenation in worker order. Ellipsoid: log_v = slogdet(B) + log '
    'volume of the unit d-ball with B the matrix whose inverse contains() '
    'uses; constant checked for d = 1..8.',
    bounds=dict(members='1-3', block='1-2 rows, <= 2-4 rounds', n_dim='1-2',
                pool='2 workers'),
    functions=['bounds/union.py:Union.sample/log_v',
               'bounds/nautilus.py:NautilusBound.sample/log_v/'
               '_reset_and_sample', 'bounds/basic.py:Ellipsoid.log_v, '
               'UnitCube.log_v'],
    stubs=['members by contract (uniform inside the member is the textbook '
           'ball construction, taken as the member contract)',
           'rng draws symbolic and independent'],
    outside=['histograms of real samples / Monte-Carlo agreement of volumes '
             '(statistical reading)', 'uniformity of Ellipsoid.sample inside '
             'its ellipsoid'],
    assumptions=['independent uniform draws'])


def jobs(tier):
    thorough = tier == 'thorough'
    jobs = []

    def add(h, cfg, block=2, **kw):
        jobs.append(Job(h, cfg, pkg_key='bounds', block=block,
                        max_paths=kw.get('max_paths', 4000)))
    for d in range(1, 9):
        add(S + 'ell_volume', dict(d=d if d <= 3 else 3, dd=d))
    add(S + 'cube', dict(d=2))
    for unit in (True, False):
        add(U + 'sample', dict(d=1, npm=2, sizes=[2, 2], n=1, unit=unit),
            block=1)
        add(U + 'sample', dict(d=1, npm=2, sizes=[2], n=2, cache=1,
                               unit=unit))
    add(U + 'sample', dict(d=1, npm=2, sizes=[2, 2, 2], n=1), block=1)
    add(U + 'trim', dict(d=1, npm=2, sizes=[2, 3, 2], cache=1))
    # the volume record that drives the allotment of proposals stays aligned
    # with the members when one of them (not the last) is split
    add(U + 'split', dict(d=1, npm=2, sizes=[4, 2], cache=1))
    add(U + 'split', dict(d=1, npm=2, sizes=[2, 4, 2], cache=1))
    # "after a checkpoint round trip": member / volume records keep their
    # order and counters (field-level harness of C09)
    add('harness.bound_io:io_fields', dict(kind='Union', d=1, unit=True,
                                           members=['ell'] * 12, cache=1))
    add('harness.bound_io:io', dict(kind='Union', d=1, unit=True,
                                    members=['ell'], cache=1, unroll=3))
    add(N + 'nb_sample', dict(d=1, n=1, cache=1), block=B)
    add(N + 'nb_sample', dict(d=1, n=2, cache=1), block=B)
    add(N + 'nb_sample', dict(d=1, n=1, cache=0, n_neural=2), block=B)
    add(N + 'nb_pool_merge', dict(d=1, pool=2, unroll=4, members_in_cube=True,
                                  open_uniform=True), block=B)
    add(N + 'nb_pool_merge', dict(d=1, pool=2, unroll=3, members_in_cube=True,
                                  open_uniform=True, periodic=[0]), block=B)
    add(N + 'nb_sample', dict(d=1, n=1, cache=0, pool=2, unroll=4,
                              members_in_cube=True, open_uniform=True,
                              periodic=[0]), block=B, max_paths=6000)
    # with proposals outside the cube: the outer bound rejects in the workers
    add(N + 'nb_pool_merge', dict(d=1, pool=2, unroll=3, open_uniform=True),
        block=B, max_paths=6000)
    if thorough:
        add(U + 'sample', dict(d=2, npm=3, sizes=[3, 3], n=2, cache=1),
            block=1, max_paths=20000)
        add(U + 'sample', dict(d=1, npm=2, sizes=[2, 2], n=2), block=2,
            max_paths=30000)
        add(N + 'nb_pool_merge', dict(d=1, pool=3, unroll=4,
                                      members_in_cube=True,
                                      open_uniform=True), block=B,
            max_paths=30000)
    return jobs
