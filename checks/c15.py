"""C15: prior maps the unit cube as declared."""
import ast
import os
import re
import subprocess
import sys
import time

from vlib import runner
from vlib.runner import Job

HERE = os.path.dirname(os.path.dirname(os.path.abspath(__file__)))
XH = os.path.join(HERE, 'harness', 'xh', 'prior_contracts.py')

META = dict(
    explanation='Engine A (symx): every declaration sequence of bounded '
    'length over the alphabet keys {None, "a", "x_1", "x_2", non-string} x '
    'distributions {range with symbolic bounds, frozen distribution with '
    'uninterpreted isf, symbolic number, link to "a"/"x_1"/undeclared key, '
    'wrong type} arises as a path of one harness on the real Prior (choices '
    'are symbolic integers); a reference interpreter states what must be '
    'accepted / rejected with which exception, that a rejected declaration '
    'leaves keys and dists unchanged, keys unique, dimensionality = number '
    'of free parameters; then the real unit_to_physical / unit_to_dictionary '
    'run on symbolic inputs of shape (d,) and (n,d) and z3 shows every free '
    'parameter is the inverse CDF of its own coordinate, fixed = constant, '
    'link = ultimate target, keys exactly the declared ones. Engine B '
    '(CrossHair/z3) on the real module with unconstrained symbolic strings '
    'of length <= 3 for the declaration contracts, beyond the alphabet.',
    bounds=dict(sequence_length='2 (quick, all) + selected 3 / 3 (thorough, '
                'all)', string_length_crosshair='<= 3',
                unit_points='shape (d,) and (2,d), d >= 1'),
    functions=['prior.py:Prior.add_parameter', 'Prior.dimensionality',
               'Prior.unit_to_physical', 'Prior.physical_to_dictionary',
               'Prior.unit_to_dictionary'],
    stubs=['scipy.stats.uniform(loc, scale).isf(q) = loc + (1-q)*scale '
           '(symbolic run only; the validation runs use scipy)',
           'frozen distribution: isf uninterpreted'],
    outside=['priors without any free parameter (the transforms index '
             'coordinate 0)', 'scipy distribution internals', 'lo >= hi'],
    assumptions=['range bounds lo < hi'])

H = 'harness.prior_decl:declare'


def jobs(tier):
    from harness.prior_decl import KEYS, DISTS
    jobs = []
    firsts = [[k, d] for k in range(len(KEYS)) for d in range(len(DISTS))]
    if tier == 'thorough':
        for f in firsts:
            jobs.append(Job(H, dict(length=3, first=f), pkg_key='default',
                            max_paths=5000, max_int_values=12, validate=1))
    else:
        for f in firsts:
            jobs.append(Job(H, dict(length=2, first=f), pkg_key='default',
                            max_paths=5000, max_int_values=12, validate=1))
        # link chains and collisions need three declarations
        for f in ([1, 0], [0, 0]):
            jobs.append(Job(H, dict(length=3, first=f), pkg_key='default',
                            max_paths=5000, max_int_values=12, validate=1,
                            split=2))
    return jobs


def _functions():
    tree = ast.parse(open(XH).read())
    return [(n.name, n.lineno + 1) for n in tree.body
            if isinstance(n, ast.FunctionDef) and not n.name.startswith('_')]


def extra(tier, seed):
    res = runner.simple_result('C15 CrossHair contracts on nautilus.prior')
    t0 = time.time()
    per = 240 if tier == 'thorough' else 90
    env = dict(os.environ)
    env['PYTHONPATH'] = os.environ.get('NAUTILUS_REPO', '/repo')
    env['NAUTILUS_REPO'] = os.environ.get('NAUTILUS_REPO', '/repo')
    procs = []
    for name, line in _functions():
        cmd = [sys.executable, '-m', 'crosshair', 'check', '--report_all',
               '--per_condition_timeout', str(per), '%s:%d' % (XH, line)]
        procs.append((name, subprocess.Popen(
            cmd, env=env, cwd=os.path.dirname(XH), stdout=subprocess.PIPE,
            stderr=subprocess.STDOUT, text=True), time.time()))
    for name, p, ts in procs:
        try:
            out, _ = p.communicate(timeout=per * 3 + 60)
        except subprocess.TimeoutExpired:
            p.kill()
            out = 'timeout'
        dt = time.time() - ts
        label = 'C15:crosshair-%s' % name
        if 'Confirmed over all paths' in out:
            runner.record(res, label, 'unsat', dt)
            res['extra_samples'].append(dict(
                condition=name, verdict='Confirmed over all paths',
                seconds=round(dt, 1)))
        elif 'error: false when calling' in out or 'error:' in out:
            m = re.search(r'when calling (\w+\(.*\)) \(which', out)
            call = m.group(1) if m else None
            runner.record(res, label, 'sat', dt)
            res['failed'] += 1
            status = 'unparsed'
            if call:
                status = replay_call(call)
            rec = dict(label=label, kind='crosshair',
                       detail=(call or out.strip()[-300:]), harness='crosshair',
                       cfg=dict(call=call), model={}, replay_status=status,
                       replay_failures=[])
            (res['violations'] if status == 'failed'
             else res['spurious']).append(rec)
        else:
            runner.record(res, label, 'unknown', dt)
            res['notes'].append('INCONCLUSIVE %s: %s' % (
                label, out.strip().splitlines()[-1][-200:] if out.strip()
                else 'no output'))
    res['wall_s'] = time.time() - t0
    return [res]


def replay_call(call):
    """run the counterexample on the real code with plain python"""
    code = ('import sys; sys.path.insert(0, %r); import prior_contracts as m; '
            'from prior_contracts import *; r = %s; '
            'sys.exit(0 if r else 1)' % (os.path.dirname(XH), call))
    env = dict(os.environ)
    env['NAUTILUS_REPO'] = os.environ.get('NAUTILUS_REPO', '/repo')
    p = subprocess.run([sys.executable, '-c', code], env=env,
                       capture_output=True, text=True)
    return 'failed' if p.returncode == 1 else 'ok'


def replay(path):
    import json
    v = json.load(open(path))
    if v.get('harness') != 'crosshair':
        from vlib.main import generic_replay
        return generic_replay(path)
    st = replay_call(v['cfg']['call'])
    print('replay of %s on the real code: %s' % (v['cfg']['call'], st))
    if st == 'failed':
        print('VIOLATION property=C15 replay=%s' % path)
        return 1
    return 0
