"""Job lists shared by the sampler-level properties."""
from vlib.runner import Job

STEP = 'harness.sampler_steps:'

SAMPLER_STUBS = [
    'NautilusBound (global of sampler.py): contains_i uninterpreted predicate; '
    'sample(n) = n fresh points with contains_i inside [0,1)^d (contract '
    'established for the real classes by C07); log_v a real that may change '
    'after sample(); proposal cache = opaque token',
    'rng: every draw a fresh symbol (uniforms in [0,1)); choice/shuffle/'
    'multinomial arbitrary (forked); state token changes on every draw',
    'likelihood: L / Linf / Bl uninterpreted functions of the transformed '
    'point, calls logged', 'prior: identity that overwrites its argument in '
    'place after computing the result', 'threadpool_limits: no-op',
]


def add_samples_jobs(tier, props, blobs=(None,), vectorized=(False,)):
    jobs = []
    thorough = tier == 'thorough'
    unroll = 3 if thorough else 2
    # sampling phase (explored): every shell of small states
    ms = [[1, 1], [1, 1, 1], [2, 1, 1]]
    if thorough:
        ms += [[1, 2, 1, 1], [2, 2, 2], [3, 1, 2]]
    for m in ms:
        for shell in range(len(m)):
            for nb in ([1, 2, 3] if thorough else [1, 2]):
                for bl in blobs:
                    for vec in vectorized:
                        for discard in (False, True):
                            jobs.append(Job(STEP + 'add_samples', dict(
                                m=m, shell=shell, n_batch=nb, explored=True,
                                discard=discard,
                                end_exp=[1] * len(m) if not discard else
                                [max(x - 1, 0) if i % 2 else x
                                 for i, x in enumerate(m)],
                                blobs=bl, vectorized=vec, unroll=unroll,
                                props=props), pkg_key='sampler',
                                max_paths=30000 if thorough else 3000))
    # sampling phase with leftover (unused) transfer candidates from the
    # exploration: they must stay where they are
    for m, prov in [([1, 1], [0]), ([1, 1, 1], [0, 1])]:
        for shell in (len(m) - 1, 0):
            jobs.append(Job(STEP + 'add_samples', dict(
                m=m, prov=prov, shell=shell, n_batch=1, explored=True,
                end_exp=[1] * len(m), unroll=unroll, props=props),
                pkg_key='sampler', max_paths=30000 if thorough else 3000))
    # exploration phase: newest shell, with transfer candidates
    expl = [([1, 0], []), ([1, 1], []), ([1, 1, 0], [0]), ([1, 1, 0], [1]),
            ([1, 1, 0], [0, 1]), ([2, 1, 1], [0, 0]), ([1, 1, 1], [-1, 0])]
    if thorough:
        expl += [([1, 1, 1, 0], [0, 1, 2]), ([2, 1, 0], [0, 0, 1]),
                 ([1, 1, 1, 1], [2, 0]), ([1, 2, 1], [1, 1, -1])]
    for m, prov in expl:
        for nb in ([1, 2, 3] if thorough else [1, 2]):
            for bl in blobs:
                for vec in vectorized:
                    jobs.append(Job(STEP + 'add_samples', dict(
                        m=m, prov=prov, shell=-1, n_batch=nb, explored=False,
                        blobs=bl, vectorized=vec, unroll=unroll, props=props,
                        neg_inf=[[0, 0]] if len(prov) == 1 else []),
                        pkg_key='sampler',
                        max_paths=30000 if thorough else 3000))
    return jobs


def add_bound_jobs(tier, props, blobs=(None,)):
    jobs = []
    thorough = tier == 'thorough'
    states = [([], 1), ([2], 1), ([1, 1], 1), ([2, 1], 2), ([1, 2], 1)]
    if thorough:
        states += [([2, 1, 1], 2), ([3], 2), ([1, 1, 2], 1), ([2, 2], 3)]
    for m, n_live in states:
        for bl in blobs:
            for prov in ([], [0]) if len(m) >= 2 else ([],):
                jobs.append(Job(STEP + 'add_bound', dict(
                    m=m, n_live=n_live, prov=prov, explored=False, blobs=bl,
                    props=props), pkg_key='sampler'))
    return jobs


RUN = 'harness.sampler_run:run_steps'


def run_jobs(tier, props, which=('explored', 'empty', 'end', 'bound')):
    """real run() unrolled K iterations (see harness/sampler_run.py)"""
    thorough = tier == 'thorough'
    jobs = []

    def add(cfg, **kw):
        cfg = dict(cfg, props=props)
        jobs.append(Job(RUN, cfg, pkg_key='sampler',
                        max_paths=kw.get('max_paths', 8000), split=9))
    if 'explored' in which:
        for m, end, disc, nbs in [([1, 1], [1, 1], False, (1, 2)),
                                  ([1, 1], [1, 0], True,
                                   (1, 2) if thorough else (1,)),
                                  ([2, 1], [1, 1], True,
                                   (1, 2) if thorough else (1,))]:
            for nb in nbs:
                add(dict(m=m, explored=True, end_exp=end, discard=disc,
                         n_batch=nb, K=1))
        add(dict(m=[1, 1], explored=True, end_exp=[1, 1], n_batch=1, K=1,
                 timeout='inf', force_timeout=False))
        if thorough:
            add(dict(m=[1, 1], explored=True, end_exp=[1, 0], discard=True,
                     n_batch=1, K=2))
            add(dict(m=[1, 1, 1], explored=True, end_exp=[1, 1, 1],
                     n_batch=1, K=1))
            add(dict(m=[1, 1], explored=True, end_exp=[1, 1], n_batch=1, K=2,
                     n_like_max='inf'))
    if 'empty' in which:
        add(dict(m=[], explored=False, n_batch=1, K=1))
        add(dict(m=[], explored=False, n_batch=2, K=1))
        if thorough:
            add(dict(m=[], explored=False, n_batch=1, K=2))
            add(dict(m=[], explored=False, n_batch=2, K=2))
    if 'end' in which:
        # exploration continues / ends within the slice; no bound is due
        for m, rd in [([1, 0, 1], True), ([1, 0, 1], False), ([1, 1], True),
                      ([0, 1], False)]:
            add(dict(m=m, explored=False, n_batch=1, K=1, no_new_bound=True,
                     run_discard=rd))
        # the discard flag was already set before exploration finished;
        # blobs present while an unoccupied shell is removed
        add(dict(m=[1, 1], explored=False, discard=True, n_batch=1, K=1,
                 no_new_bound=True, run_discard=True))
        add(dict(m=[1, 0, 1], explored=False, n_batch=1, K=1,
                 no_new_bound=True, run_discard=True, blobs='scalar'))
        if thorough:
            add(dict(m=[1, 0, 0, 1], explored=False, n_batch=1, K=1,
                     no_new_bound=True, run_discard=True))
            add(dict(m=[1, 1], explored=False, n_batch=2, K=1,
                     no_new_bound=True, run_discard=True))
            add(dict(m=[1, 0, 1], explored=False, n_batch=1, K=2,
                     no_new_bound=True, run_discard=True))
    if 'bound' in which:
        # a bound may be inserted inside the slice
        add(dict(m=[2], explored=False, n_batch=1, K=1, n_live=1))
        if thorough:
            add(dict(m=[1, 1], explored=False, n_batch=1, K=1, n_live=1,
                     prov=[0]), max_paths=60000)
    return jobs


# Harnesses are shared between properties and carry the obligations of all
# of them.  A check reports as VIOLATION of its property only the obligations
# labelled with that property, plus the obligations of a neighbouring
# property that are clauses of this one as well (listed here, optionally
# restricted to a detail).  Anything else that fails in a run is printed as
# OTHER-PROPERTY and left to the check of the property it belongs to.
ACCEPT = {
    'C03': [('C02:alignment', None)],          # columns of a row stay together
    'C05': [('C09:', None),                    # bounds are part of the file
            ('C12:discard', None)],            # view after a resume
    'C08': [('C07:cached-proposals-are-contained', None),
            ('C09:read-back', None),           # "after a checkpoint round trip"
            ('C13:trim-resets-sampling', None),
            ('C13:split-resets-sampling', None),
            ('C13:volume-record-current', None)],
    'C10': [('C03:n_like', None), ('C03:calls', None),
            ('C05:file-mirrors-state', 'n_like'),
            ('C05:full-write-mirrors-state', 'n_like')],
    'C12': [('C02:alignment', None),
            ('C05:file-mirrors-state', 'discard'),
            ('C05:file-mirrors-state', 'shell_'),
            ('C05:full-write-mirrors-state', 'discard')],
}


def relevant(pid, label, detail):
    if label.startswith(pid + ':'):
        return True
    for pref, sub in ACCEPT.get(pid, []):
        if label.startswith(pref) and (sub is None or sub in (detail or '')):
            return True
    return False
