"""C16: periodic phase shift."""
import json
import math
import os
import struct
import time

import z3

from vlib import fpx, loader, runner
from vlib.engine import NotModelled
from vlib.runner import Job

META = dict(
    explanation='(1) IEEE-754: the body of PhaseShift.transform is re-read '
    'from the working tree and translated from its AST to QF_FP float64 '
    '(numpy `%` = exact fmod + sign fix-up); z3 must show that for ALL '
    'doubles x, c in [0,1) the result is in [0,1), forward and inverse - a '
    'satisfying assignment is a pair of doubles, replayed with numpy on the '
    'real method before it is reported. The same for the centre expression '
    'of compute. The translator is validated on every run against numpy on '
    'boundary-directed doubles. (2) Rounding model: inverse(forward(x)) is x '
    'modulo one up to 2^-48, in linear real arithmetic with one bounded '
    'error variable per rounding (derived from the same AST). (3) Over the '
    'reals (symx on the real code): non-periodic coordinates and shape '
    'untouched, input not modified, exact inverse, and compute() places the '
    'largest circular gap across the boundary for every order of the '
    'construction points. (4) The real NautilusBound.compute (Union and '
    'NeuralBound replaced by recording stand-ins): the points both of its '
    'ellipsoid unions are built from, in the shifted frame, have their '
    'largest circular gap across the boundary in every periodic coordinate, '
    'for all points, likelihoods and thresholds (ties included).',
    bounds=dict(fp='all finite float64 x, c in [0,1) (full width, no '
                'sampling)', reals='d <= 3, <= 3 points (quick) / 4 points '
                '(thorough), every subset of periodic coordinates'),
    functions=['bounds/periodic.py:PhaseShift.transform',
               'PhaseShift.compute',
               'bounds/nautilus.py:NautilusBound.compute (shift part)'],
    stubs=['none (FP part); symnp shim for the real-arithmetic part',
           'Union / NeuralBound inside NautilusBound.compute: recording '
           'stand-ins that never split'],
    outside=['monolithic float64 round trip (QF_FP does not finish); '
             'replaced by the rounding-error model',
             'more than 4 construction points'],
    assumptions=['numpy float64 `%` implements npy_divmod (validated on '
                 'boundary inputs each run)'])

H = 'harness.shift:'


def jobs(tier):
    thorough = tier == 'thorough'
    jobs = []
    for d, per in [(1, [0]), (2, [1]), (2, [0, 1]), (3, [0, 2]), (3, []),
                   (3, [1])]:
        jobs.append(Job(H + 'frame', dict(d=d, periodic=per, n=2),
                        pkg_key='default'))
    gaps = [(1, [0], 1), (1, [0], 2), (1, [0], 3), (2, [0, 1], 2),
            (2, [1], 3), (2, [0, 1], 3), (3, [0, 2], 2)]
    if thorough:
        gaps += [(1, [0], 4), (2, [0, 1], 4), (3, [0, 1, 2], 3)]
    for d, per, n in gaps:
        jobs.append(Job(H + 'gap', dict(d=d, periodic=per, n=n),
                        pkg_key='default',
                        max_paths=40000 if thorough else 6000,
                        split=6 if thorough and n >= 3 else None))
    # the shift as used by the nautilus bound: the points its ellipsoid
    # unions are built from have their largest gap across the boundary
    nbc = [dict(d=1, n=3, periodic=[0]), dict(d=2, n=3, periodic=[1]),
           dict(d=2, n=2, periodic=[0, 1]), dict(d=1, n=2)]
    for cfg in nbc:
        jobs.append(Job('harness.nautilus_steps:nb_compute', cfg,
                        pkg_key='bounds', max_paths=6000))
    if thorough:
        jobs.append(Job('harness.nautilus_steps:nb_compute',
                        dict(d=1, n=4, periodic=[0]), pkg_key='bounds',
                        max_paths=6000, split=6))
    return jobs


def _dbl(v):
    """python float of a z3 FP model value"""
    if z3.is_fprm(v):
        return None
    s = v.sign()
    if v.isNaN():
        return float('nan')
    if v.isInf():
        return -math.inf if s else math.inf
    bits = (int(s) << 63) | (v.exponent_as_long(True) << 52) | \
        v.significand_as_long()
    return struct.unpack('<d', struct.pack('<Q', bits))[0]


def boundary_doubles(rng, n):
    import numpy as np
    base = [0.0, 5e-324, 2.2250738585072014e-308, 2**-60, 2**-54, 2**-53,
            2**-52, 0.25, 0.5 - 2**-54, 0.5, 0.5 + 2**-53, 0.75,
            1 - 2**-53, 1 - 2**-52, 2.761806327321972e-10,
            0.5000000002761806]
    xs = list(base)
    while len(xs) < n:
        b = rng.choice(base)
        e = rng.choice([0, 1, -1, 2, -2, 3])
        v = float(b)
        for _ in range(abs(e)):
            v = float(np.nextafter(v, 2.0 if e > 0 else -1.0))
        if 0 <= v < 1:
            xs.append(v)
        xs.append(rng.random())
    return [x for x in xs if 0 <= x < 1][:n]


def extra(tier, seed):
    import random
    import numpy as np
    thorough = tier == 'thorough'
    res = runner.simple_result('C16 float64 (fpx)')
    t_all = time.time()
    pkg = loader.load('nautilus_c16', {}, block=2)
    PS = pkg.periodic.PhaseShift
    try:
        fn, src = fpx.method_ast(PS, 'transform')
        fnc, srcc = fpx.method_ast(PS, 'compute')
    except Exception as e:
        res['notes'].append('INCONCLUSIVE: cannot read source: %r' % (e,))
        return [res]

    def real_transform(x, c, inverse):
        s = PS()
        s.periodic = np.array([0])
        s.centers = np.array([c])
        return float(s.transform(np.array([[x, 0.25]]), inverse=inverse)[0, 0])

    # -- translator validation against numpy on boundary-directed doubles
    rng = random.Random(seed)
    n_val = 20000 if thorough else 4000
    xs = boundary_doubles(rng, n_val)
    cs = boundary_doubles(rng, n_val)
    rng.shuffle(cs)
    mism = 0
    try:
        for inverse in (False, True):
            nd = fpx.NumDomain()
            col, _ = fpx.run_transform(fn, nd, np.array(xs), np.array(cs),
                                       inverse)
            s = PS()
            s.periodic = np.array([0])
            for k in range(0, len(xs), max(1, len(xs) // 400)):
                r = real_transform(xs[k], cs[k], inverse)
                a = float(np.asarray(col)[k])
                if not (r == a or (r != r and a != a)):
                    mism += 1
    except NotModelled as e:
        res['notes'].append('NOT-MODELLED (fpx): %s' % (e,))
        res['notmodelled'] += 1
        res['wall_s'] = time.time() - t_all
        return [res]
    res['validated'] += 2 * len(range(0, len(xs), max(1, len(xs) // 400)))
    if mism:
        res['notes'].append('INCONCLUSIVE: AST interpretation disagrees with '
                            'the real method on %d inputs' % mism)
        res['inconclusive'] += 1
        return [res]

    # -- QF_FP: range, both directions
    timeout = (900 if thorough else 240) * 1000
    for inverse in (False, True):
        d = fpx.FPDomain()
        x, c = d.var('x'), d.var('c')
        out, nops = fpx.run_transform(fn, d, x, c, inverse)
        s = z3.Solver()
        s.set('timeout', timeout)
        s.add(d.in_unit(x), d.in_unit(c))
        s.add(z3.Not(d.in_unit(out)))
        t0 = time.time()
        r = str(s.check())
        dt = time.time() - t0
        label = 'C16:range-float64' + ('-inverse' if inverse else '')
        runner.record(res, label, r, dt)
        res['extra_samples'].append(dict(
            query=label, result=r, seconds=round(dt, 2),
            ast_ops=nops, smt='QF_FP Float64, x,c in [0,1), not in_unit(out)'))
        if r == 'sat':
            m = s.model()
            xv, cv = _dbl(m[x]), _dbl(m[c])
            got = real_transform(xv, cv, inverse)
            rec = dict(label=label, kind='fp',
                       detail='transform(x=%r, center=%r, inverse=%r) -> %r'
                       % (xv, cv, inverse, got),
                       harness='fpx', cfg=dict(x=xv, c=cv, inverse=inverse),
                       model={}, replay_status='failed' if not (0 <= got < 1)
                       else 'ok', replay_failures=[])
            if not (0 <= got < 1):
                res['violations'].append(rec)
            else:
                res['spurious'].append(rec)
            res['failed'] += 1

    # -- QF_FP: centre expression of compute in [0,1)
    try:
        tgt = None
        for node in __import__('ast').walk(fnc):
            if isinstance(node, __import__('ast').Assign) and \
                    'centers[i]' in __import__('ast').unparse(node.targets[0]):
                tgt = node.value
        if tgt is None:
            raise NotModelled('no assignment to centers[i] in compute')
        d = fpx.FPDomain()
        a, g = d.var('a'), d.var('g')
        # abstraction: any element of the sorted coordinates is some a in
        # [0,1), any element / maximum of the gap array is some g in [0,1]
        _ast = __import__('ast')
        env = {'x[np.argmax(dx)]': a, 'np.amax(dx)': g}
        names = {}
        for node in _ast.walk(fnc):
            if isinstance(node, _ast.Assign) and \
                    len(node.targets) == 1 and \
                    isinstance(node.targets[0], _ast.Name):
                src = _ast.unparse(node.value)
                if src.startswith('np.sort('):
                    names[node.targets[0].id] = 'sorted'
                elif 'np.diff(' in src:
                    names[node.targets[0].id] = 'gaps'
        for node in _ast.walk(tgt):
            src = _ast.unparse(node)
            if isinstance(node, _ast.Subscript) and \
                    isinstance(node.value, _ast.Name):
                kind = names.get(node.value.id)
                if kind == 'sorted':
                    env[src] = a
                elif kind == 'gaps':
                    env[src] = g
            elif isinstance(node, _ast.Call) and node.args and \
                    isinstance(node.args[0], _ast.Name) and \
                    names.get(node.args[0].id) == 'gaps' and \
                    _ast.unparse(node.func) in ('np.amax', 'np.max', 'max'):
                env[src] = g
        it = fpx.Interp(d, env)
        cen = it.expr(tgt)
        s = z3.Solver()
        s.set('timeout', timeout)
        s.add(d.in_unit(a), z3.fpGEQ(g, d.const(0.0)),
              z3.fpLEQ(g, d.const(1.0)))
        s.add(z3.Not(d.in_unit(cen)))
        t0 = time.time()
        r = str(s.check())
        dt = time.time() - t0
        runner.record(res, 'C16:center-float64', r, dt)
        res['extra_samples'].append(dict(query='C16:center-float64',
                                         result=r, seconds=round(dt, 2)))
        if r == 'sat':
            m = s.model()
            av, gv = _dbl(m[a]), _dbl(m[g])
            got = float((np.float64(av) + np.float64(gv) / 2.0 + 0.5) % 1)
            rec = dict(label='C16:center-float64', kind='fp',
                       detail='centre for point %r gap %r -> %r' % (av, gv, got),
                       harness='fpx', cfg=dict(a=av, g=gv), model={},
                       replay_status='failed' if not (0 <= got < 1) else 'ok',
                       replay_failures=[])
            (res['violations'] if not (0 <= got < 1)
             else res['spurious']).append(rec)
            res['failed'] += 1
    except NotModelled as e:
        res['notes'].append('NOT-MODELLED (fpx compute centre): %s' % (e,))
        res['notmodelled'] += 1

    # -- rounding-error model: inverse(forward(x)) = x modulo one up to 2^-48
    try:
        d = fpx.ErrDomain(mag=2.0)
        x, c = d.var('x'), d.var('c')
        y, _ = fpx.run_transform(fn, d, x, c, False)
        z, _ = fpx.run_transform(fn, d, y, c, True)
        delta = z3.RealVal(1) / (2 ** 48)
        s = z3.Solver()
        s.set('timeout', timeout)
        s.add(x >= 0, x < 1, c >= 0, c < 1)
        for f in d.side:
            s.add(f)
        diff = z - x
        s.add(z3.Not(z3.Or(z3.And(diff <= delta, diff >= -delta),
                           diff >= 1 - delta, diff <= -(1 - delta))))
        t0 = time.time()
        r = str(s.check())
        dt = time.time() - t0
        runner.record(res, 'C16:inverse-up-to-rounding', r, dt)
        res['extra_samples'].append(dict(
            query='C16:inverse-up-to-rounding', result=r,
            seconds=round(dt, 2), roundings=d.n))
        if r == 'sat':
            m = s.model()

            def fr(v):
                v = m.eval(v, model_completion=True)
                return float(v.numerator_as_long()) / float(
                    v.denominator_as_long())
            xv, cv = fr(x), fr(c)
            # replay on the real code
            yv = real_transform(xv, cv, False)
            zv = real_transform(yv, cv, True)
            dd = abs(zv - xv)
            bad = not (dd <= 2.0 ** -48 or dd >= 1 - 2.0 ** -48)
            rec = dict(label='C16:inverse-up-to-rounding', kind='err-model',
                       detail='x=%r c=%r forward=%r back=%r' % (xv, cv, yv, zv),
                       harness='fpx', cfg=dict(x=xv, c=cv), model={},
                       replay_status='failed' if bad else 'ok',
                       replay_failures=[])
            (res['violations'] if bad else res['spurious']).append(rec)
            res['failed'] += 1
    except NotModelled as e:
        res['notes'].append('NOT-MODELLED (error model): %s' % (e,))
        res['notmodelled'] += 1
    res['wall_s'] = time.time() - t_all
    return [res]


def replay(path):
    import numpy as np
    v = json.load(open(path))
    if v.get('harness') != 'fpx':
        from vlib.main import generic_replay
        return generic_replay(path)
    pkg = loader.load('nautilus_c16', {}, block=2)
    PS = pkg.periodic.PhaseShift
    cfg = v['cfg']
    s = PS()
    s.periodic = np.array([0])
    s.centers = np.array([cfg['c']])
    out = s.transform(np.array([[cfg['x'], 0.25]]),
                      inverse=cfg.get('inverse', False))
    print('transform(%r) with centre %r -> %r' % (cfg['x'], cfg['c'],
                                                  out[0, 0]))
    if not (0 <= out[0, 0] < 1):
        print('VIOLATION property=C16 replay=%s' % path)
        return 1
    return 0
