from vlib.runner import Job
from . import common

CR = 'harness.sampler_file:crash'

META = dict(
    explanation='Bounded symbolic verification of C06 at the granularity of '
    'the file-system / h5py API operations nautilus issues. The real '
    'write(), write_shell_update(), bound write/update run inside one '
    'iteration of the real run() over a journalled HDF5 model; the kill '
    'position k is a symbolic integer over the journal (concretised by '
    'forking), the file system "after a kill at k" is rebuilt from the '
    'journal prefix, and the real resume code must load it without raising '
    'into a state equal (as terms) to one of the completely written states '
    '(the previous one or any completed during the iteration); the file must '
    'exist whenever it existed before. Two durability models: "api" (every '
    'operation written through immediately) and "close" (HDF5 default: '
    'changes of an r+ handle reach the file at close, a newly created file '
    'is unreadable until closed). Counterexamples are replayed with real '
    'h5py by killing (os._exit) a forked child at the same operation; for '
    'the "api" model the child flushes after every operation.',
    bounds=dict(iterations=1, states='<= 3 shells, <= 2 samples per shell, '
                'n_batch 1', crash_points='every journal position of the '
                'iteration (26-110 per path)'),
    functions=['sampler.py:Sampler.write', 'Sampler.write_shell_update',
               'Sampler.__init__ (resume)', 'Sampler.run'],
    stubs=common.SAMPLER_STUBS + ['symh5 journalled file model; os.replace '
                                  'atomic'],
    outside=['kills inside a single HDF5 API call (torn flush at close): the '
             'model is per API operation', 'power loss / fsync durability',
             'real bound classes (their write/update are C09)'],
    assumptions=['each API operation is atomic and they become durable in '
                 'program order'])


def jobs(tier):
    thorough = tier == 'thorough'
    jobs = []
    states = [dict(m=[1, 1], explored=True, end_exp=[1, 1], n_batch=1),
              dict(m=[], explored=False, n_batch=1),
              dict(m=[1, 0, 1], explored=False, n_batch=1, no_new_bound=True,
                   run_discard=True)]
    if thorough:
        states += [dict(m=[2], explored=False, n_batch=1, n_live=1),dict(m=[2, 1], explored=True, end_exp=[1, 0], discard=True,
                        n_batch=2),
                   dict(m=[1, 1, 0], explored=False, n_batch=1, prov=[0],
                        no_new_bound=True),
                   dict(m=[1, 1], explored=True, end_exp=[1, 1], n_batch=1,
                        blobs='scalar')]
    for s in states:
        for model in ('api', 'close'):
            jobs.append(Job(CR, dict(s, h5_model=model), pkg_key='sampler',
                            max_paths=40000, max_int_values=400, validate=1,
                            split=8))
    return jobs
