from vlib.runner import Job
from . import common

EQ = 'harness.sampler_equal:equal_weight'

META = dict(
    explanation='Bounded symbolic verification of C14: the real '
    'posterior(equal_weight=True, equal_weight_boost=b) runs on an arbitrary '
    'invariant state with b > 0 symbolic and the uniform draws symbolic. On '
    'every path (repeat counts are concretised by forking) z3 shows: the '
    'output rows are the input rows in order, each with its own likelihood '
    'and blob, row k repeated c_k times with c_k = floor(r_k) + [u_k < r_k - '
    'floor(r_k)], r_k = w_k / max(w) * b written independently and u_k the '
    'k-th element of one single fresh draw (independent uniforms => '
    'expectation exactly r_k); b <= 1 => no repeats; zero-weight samples are '
    'never drawn; all returned weights are equal and sum to one (nlsat); the '
    'weighted posterior and the stored samples are unchanged. exp is '
    'uninterpreted with the cuts exp>0, exp(x)<=1 for x<=0 and sign/upper '
    'bounds of products, each proved from the path condition before it is '
    'added. Replay uses the real code with real exp and sweeps the uniform '
    'draws over a grid.',
    bounds=dict(samples='<= 4 (incl. -inf ones)', boost='0 < b < 3 (2 in '
                'the quick tier): repeat counts 0..3'),
    functions=['sampler.py:Sampler.posterior (equal-weight branch)'],
    stubs=common.SAMPLER_STUBS,
    outside=['boost >= 3', 'float rounding of r_k at exact integers'],
    assumptions=['generator draws are independent uniforms on [0,1)'])


def jobs(tier):
    thorough = tier == 'thorough'
    jobs = []
    states = [dict(m=[2, 1], explored=False, neg_inf=[[0, 1]],
                   blobs='scalar'),
              dict(m=[1, 1], explored=True, end_exp=[1, 1], boost_max=2),
              dict(m=[1, 1], explored=True, end_exp=[1, 0], discard=True,
                   boost_max=3)]
    if thorough:
        states += [dict(m=[2, 1], explored=True, end_exp=[1, 1], boost_max=2),dict(m=[2, 2], explored=True, end_exp=[1, 0], discard=True,
                        boost_max=3),
                   dict(m=[2, 1], explored=True, end_exp=[1, 1], boost_max=3,
                        blobs='scalar'),
                   dict(m=[3], explored=False, boost_max=3)]
    for s in states:
        jobs.append(Job(EQ, s, pkg_key='sampler', max_paths=8000,
                        query_timeout_ms=60000))
    return jobs
