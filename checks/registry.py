"""Which properties are claimed, with what level; MANIFEST.json is generated
from this table by `python -m checks.registry`."""
import json
import os

HERE = os.path.dirname(os.path.dirname(os.path.abspath(__file__)))

SYMX_NOTE = ('Trusted base: z3; the symx engine and the symnp numpy shim '
             '(validated per run by re-running explored paths on the real '
             'code with real numpy); the environment stubs listed in the '
             'evidence file, each with its contract; the induction principle '
             'over operations. Bounded: sizes / unrollings as stated in the '
             'evidence; real arithmetic stands in for float64 unless said '
             'otherwise.')

CLAIMED = {
    'C01': dict(
        technique='bounded symbolic execution of the real Sampler step '
                  'functions (own engine over z3), inductive invariant, '
                  'bounds as uninterpreted predicates; counterexamples '
                  'replayed on the real code',
        text='For every feasible path of add_samples / sample_shell / '
             'add_bound / shell_association from an arbitrary invariant '
             'state within the size bounds, z3 shows the shell-membership '
             'invariant is preserved; this covers all likelihoods, bound '
             'geometries, seeds and histories at once, which no finite set '
             'of runs can.',
        design_ref='3 (C01)'),
}

CLAIMED['C02'] = dict(
    technique='bounded symbolic execution of the real estimator code + '
              'exp-domain (linear twin) specification discharged by z3 '
              'nlsat; inductive bookkeeping invariant on the step functions',
    text='For arbitrary invariant states within the size bounds the solver '
         'shows that log_z, n_eff, eta, the posterior weights and the shell '
         'volumes computed by the real code equal the per-sample '
         'importance-sampling estimators, and that every step keeps the '
         'per-shell bookkeeping aligned; quantifies over all likelihood '
         'values, counters and histories.',
    design_ref='3 (C02), 2.3')
CLAIMED['C03'] = dict(
    technique='bounded symbolic execution of the real evaluate_likelihood / '
              'add_samples / add_bound / posterior with likelihood and blobs '
              'as uninterpreted functions of the point, every evaluation '
              'mode enumerated',
    text='For every evaluation mode and batch size within the bounds and '
         'for arbitrary likelihood / blob functions the solver shows each '
         'stored and returned row carries the likelihood and blob of its '
         'own point, once, and that no mode raises; the inductive step '
         'covers transfers and bound insertions.',
    design_ref='3 (C03)')

CLAIMED['C16'] = dict(
    engine='fpx',
    technique='AST -> QF_FP (IEEE-754 binary64) translation of '
              'PhaseShift.transform decided by z3 at full width; '
              'rounding-error model in linear real arithmetic for the '
              'inverse; symbolic execution of the real compute/transform '
              'over the reals for frame and largest-gap placement',
    text='z3 decides, for all pairs of doubles in [0,1), that the shift '
         'stays in [0,1) in both directions (a counterexample is a concrete '
         'pair of doubles replayed with numpy), bounds the round-trip error '
         'modulo one, and shows for every order of up to 3-4 construction '
         'points that the largest circular gap is placed across the '
         'boundary and that non-periodic coordinates are untouched.',
    design_ref='4 (C16), 2.7',
    note='Trusted base: z3 (QF_FP and LIRA), the AST translator fpx '
         '(validated every run against numpy on boundary-directed doubles), '
         'symx/symnp for the real-arithmetic part. Inputs are finite '
         'doubles in [0,1); the round trip is bounded through an error '
         'model (|error| <= 2^-52 per rounding), not bit-exactly.')

CLAIMED['C15'] = dict(
    engine='crosshair',
    technique='symbolic execution of the real Prior: own engine over z3 '
              '(declaration sequences as symbolic choices, reference '
              'interpreter, transforms on symbolic reals) and CrossHair/z3 '
              'with symbolic strings for the declaration contracts',
    text='Every declaration sequence within the bound and every unit-cube '
         'input is covered by solver-decided paths of the real code; '
         'CrossHair confirms the rejection-leaves-unchanged and key '
         'uniqueness contracts over all paths for arbitrary strings of '
         'length <= 3.',
    design_ref='4 (C15), 2.7',
    note='Trusted base: z3, CrossHair 0.0.110, symx/symnp, the reference '
         'interpreter of the declaration list written from the property '
         'statement; scipy.stats.uniform replaced by its closed form in the '
         'symbolic run.')

CLAIMED['C10'] = dict(
    technique='bounded symbolic execution of the real run() loop (unrolled '
              'K iterations) with symbolic limits, symbolic clock and a '
              'call-logging likelihood stub; z3 decides every obligation',
    text='For every feasible path of run() within the unrolling from the '
         'empty sampler and from arbitrary invariant states, the solver '
         'shows the call counter, the one-batch-per-step rule, the budget '
         'and timeout guards, the unit-cube support of evaluated points and '
         'the exact success predicate; limits are symbolic, so n_like_max '
         'from 0 upward and all timeouts are covered at once.',
    design_ref='3 (C10)')
CLAIMED['C12'] = dict(
    technique='bounded symbolic execution of the real run() from explored / '
              'ending-exploration states and of the discard_exploration '
              'setter; term identity of all statistics after a double '
              'toggle',
    text='The solver shows on every path that exploration never resumes, '
         'bounds are frozen, stored arrays only grow by appending, the '
         'end-of-exploration cut is consistent, and that switching discard '
         'on shows exactly the post-exploration suffix while switching it '
         'off again yields term-identical (hence bit-identical) statistics.',
    design_ref='3 (C12)')

CLAIMED['C05'] = dict(
    technique='bounded symbolic execution of the real write / '
              'write_shell_update / resume code over a journalled HDF5 '
              'model; file-mirrors-state invariant re-established after '
              'every run() iteration; cells compared as terms',
    text='From arbitrary invariant states the solver shows that the file '
         'written by the real code, read by the real resume path, equals '
         'the live state on every field (including generator state and '
         'bound proposal caches) after bound insertion, first batch, every '
         'batch and the end of exploration; with determinism of a step this '
         'gives bit-identical continuation for every cut point.',
    design_ref='3 (C05), 2.5')

CLAIMED['C06'] = dict(
    technique='bounded symbolic execution of the real checkpoint writers '
              'inside run() over a journalled HDF5 model; kill position = '
              'symbolic journal index assumed per position; real resume code '
              'on the crashed file; replay by killing a child process on '
              'real h5py',
    text='For every explored path of an iteration and every journal '
         'position of its file operations the solver-checked obligations '
         'say the file exists, loads, and equals a completely written '
         'state, under two durability models; the in-place shell update is '
         'a recorded known finding, everything else (full write, resume) '
         'must hold. Narrower than the property in that kill points are API '
         'operations, not individual write system calls.',
    design_ref='3 (C06), 2.5',
    note='Trusted base: z3, symx/symnp, the symh5 file model (operations '
         'atomic and durable in order; os.replace atomic); replay uses real '
         'h5py with a child killed by os._exit at the same operation '
         '(flushing after every operation for the write-through model).')

CLAIMED['C14'] = dict(
    technique='bounded symbolic execution of the real equal-weight branch '
              'of posterior() with symbolic boost and symbolic uniform '
              'draws; repeat counts against an independent floor/Bernoulli '
              'specification decided by z3; replay with real exp and a '
              'sweep of the draws',
    text='For arbitrary weights (including zero-weight samples) and every '
         'boost in the bound the solver shows the stochastic-rounding '
         'repeat counts, one own independent draw per sample (hence '
         'expectation r), no repeats for boost <= 1, order and payload '
         'preservation, equal normalised weights and that the weighted '
         'posterior is untouched.',
    design_ref='3 (C14)')

CLAIMED['C11'] = dict(
    technique='relational bounded symbolic execution: the real step run '
              'twice from one symbolic state and environment, differing in '
              'one invisible setting; post-states compared as terms; '
              'determinism taint of generators',
    text='For every path of the compared steps the solver-explored '
         'post-states, return values and likelihood argument sequences are '
         'term-identical between scalar/vectorised, pool/no pool, '
         'verbose/quiet, file/no file and with/without accessor calls; '
         'symbolic state covers all seeds and likelihoods. Worker '
         'scheduling of a real pool is a trusted contract, not decided '
         'here.',
    design_ref='3 (C11)')

CLAIMED['C13'] = dict(
    technique='bounded symbolic execution of the real Union.split / trim / '
              'sample from an arbitrary well-formed union record (inductive '
              'step), Gaussian-mixture scores havocked, member ellipsoids as '
              'contract stubs; volume clause by nlsat on the linear twin',
    text='For every labelling, top-up order, volume outcome and proposal '
         'outcome within the bounds z3 shows the union record stays '
         'well-formed, both split products reach the minimum size, points '
         'are conserved, refused operations change nothing and nothing '
         'raises; induction extends this to operation sequences of any '
         'length.',
    design_ref='4 (C13)')

CLAIMED['C09'] = dict(
    technique='bounded symbolic execution of the real write / update / read '
              'of every bound class over a journalled HDF5 model, objects '
              'with symbolic fields; behaviour (contains, log_v, sample '
              'stream) of original and read-back object compared as terms',
    text='For every class, option set and reachable kind of state within '
         'the bounds the solver-explored paths show the read-back object '
         'answers contains() identically for arbitrary points, reports the '
         'same volume and produces the identical sample stream from a cloned '
         'generator, and that update+read equals the live object and a full '
         'write+read.',
    design_ref='4 (C09)')

CLAIMED['C07'] = dict(
    technique='bounded symbolic execution of the real bound classes with '
              'symbolic fields; ellipsoid algebra discharged by z3 nlsat '
              'from the defining equations of inverse / Cholesky / sqrt / '
              'roots; composition by contracts (members of unions and '
              'nautilus bounds are uninterpreted predicates)',
    text='Over the reals and within the dimension bounds the solver shows '
         'for every class that sampled points satisfy contains() and lie in '
         'the cube where restricted, that ellipsoids and mixtures enclose '
         'their construction points, that this survives split/trim, and '
         'that neural / nautilus bounds never contain a point outside their '
         'outer bound - for all point sets, matrices and draws at once.',
    design_ref='4 (C07)')
CLAIMED['C08'] = dict(
    technique='bounded symbolic execution of the real Union / NautilusBound '
              'sampling code; proposal probabilities, acceptance thresholds '
              'and volume formulas extracted from the run and decided by z3 '
              '(nlsat for the exp-domain identities)',
    text='An analytic certificate instead of histograms: z3 shows that '
         'members are proposed proportionally to volume, that a proposal of '
         'multiplicity m is kept with probability exactly 1/m using its own '
         'draw, that counters and reported volumes follow, also through the '
         'pool merge; hence the proposal density is 1/sum V on the whole '
         'union. The statistical reading of the property is not claimed.',
    design_ref='4 (C08)')

NOT_APPLICABLE = {
    'C04': 'statement about the distribution of whole-program outputs over '
           'seed ensembles; no bounded symbolic input space decides it '
           '(DESIGN.md section 5)',
}

PENDING_REASON = ('check not built yet in this round; see DESIGN.md for the '
                  'planned encoding')


def build():
    props = [json.loads(l)['id'] for l in
             open(os.path.join(HERE, 'properties.jsonl'))]
    checks = []
    for pid in props:
        if pid not in CLAIMED:
            continue
        c = CLAIMED[pid]
        checks.append(dict(
            property_id=pid,
            quick_cmd='./check %s quick' % pid,
            thorough_cmd='./check %s thorough' % pid,
            evidence_file='evidence/%s.json' % pid,
            replay_cmd_template='./check %s --replay {path}' % pid,
            engine=c.get('engine', 'symx'),
            level_claimed=dict(category='other', text=c['text'],
                               design_ref=c['design_ref']),
            level_note=c.get('note', SYMX_NOTE),
            technique=c['technique']))
    na = []
    for pid in props:
        if pid in CLAIMED:
            continue
        na.append(dict(property_id=pid,
                       reason=NOT_APPLICABLE.get(pid, PENDING_REASON)))
    man = dict(
        version=1,
        setup_cmd='sh ./setup.sh',
        hooks=dict(
            guard='NAUTILUS_VERIF',
            enable='no source hooks: checks load /repo/nautilus from the '
                   'working tree as a second package and rebind module '
                   'globals from outside (NAUTILUS_VERIF=1 is exported by '
                   './check but nothing in /repo reads it)',
            baseline_off_cmd='cd /repo && /venv/bin/python -m pytest -ra -q '
                             '-p no:cacheprovider --timeout=900 '
                             '--continue-on-collection-errors',
            source_commits=[], add_only=True),
        engines=[
            dict(name='symx', path='vlib/engine.py',
                 serves_properties=sorted(p for p, c in CLAIMED.items()
                                          if c.get('engine', 'symx') == 'symx'),
                 kind_free_text='symbolic execution of the real Python '
                 'source by re-execution over z3 (fork on __bool__), numpy '
                 'stand-in symnp, journalled HDF5 model, replay on the real '
                 'code'),
            dict(name='fpx', path='vlib/fpx.py',
                 serves_properties=sorted(p for p, c in CLAIMED.items()
                                          if c.get('engine') == 'fpx'),
                 kind_free_text='AST -> QF_FP (IEEE float64) translation of '
                 'straight-line numpy arithmetic, z3'),
            dict(name='crosshair', path='checks/c15.py',
                 serves_properties=sorted(p for p, c in CLAIMED.items()
                                          if c.get('engine') == 'crosshair'),
                 kind_free_text='CrossHair symbolic execution (z3) of '
                 'nautilus.prior with PEP-316 contracts'),
        ],
        checks=checks,
        not_applicable=na,
        notes='Solver-based checking of the real code; see DESIGN.md. '
              'known_findings.json lists recorded and repaired defects.')
    with open(os.path.join(HERE, 'MANIFEST.json'), 'w') as f:
        json.dump(man, f, indent=1)
    return man


if __name__ == '__main__':
    m = build()
    print('claimed:', [c['property_id'] for c in m['checks']])
