from vlib.runner import Job

IO = 'harness.bound_io:'
B = {'union': 1, 'nautilus': 2}

META = dict(
    explanation='Bounded symbolic verification of C09: for every bound class '
    'and option set an object with SYMBOLIC fields (centres, matrices, '
    'volumes, caches, counters, network weights) is written by the real '
    'write() into a journalled HDF5 model and read back by the real read() '
    'with a cloned generator; then contains(X) on symbolic X, log_v and two '
    'calls of sample(n) are executed on both objects and must be identical '
    'terms on every path (identical terms = the same floating-point '
    'operations on the same operands), and nothing may raise. Second: '
    'write, sample, update(group), read must behave like the live object '
    'and like a fresh full write + read. Networks are uninterpreted '
    'functions of exactly the attributes sklearn\'s predict reads.',
    bounds=dict(n_dim='1-3 (Ellipsoid, Mixture: every dim_cube pattern for '
                'd <= 2/3), 1 for Union / NautilusBound sampling',
                members='1-2', networks='0-2', cache='0-1 rows',
                proposal_block='1-2 rows, bounded rounds'),
    functions=['bounds/basic.py:UnitCube/Ellipsoid/UnitCubeEllipsoidMixture '
               '.write/.read/.contains/.sample/.log_v',
               'bounds/union.py:Union.write/update/read/contains/sample/log_v',
               'bounds/neural.py:NeuralBound.write/read/contains',
               'bounds/periodic.py:PhaseShift.write/read/transform',
               'bounds/nautilus.py:NautilusBound.write/update/read/contains/'
               'sample/log_v', 'neural.py:NeuralNetworkEmulator.write/read/'
               'predict'],
    stubs=['symh5 file model (stores and returns what was written)',
           'MLPRegressor: predict = uninterpreted function of coefs_, '
           'intercepts_, n_layers_, activation, out_activation_ and the row',
           'np.linalg.slogdet uninterpreted; rng as in the other checks'],
    outside=['bit-exact storage of float64 by HDF5 (trusted)', 'block (the '
             'may-split flags) is not persisted and not read by contains / '
             'log_v / sample', 'larger dimensions'],
    assumptions=[])


def jobs(tier):
    thorough = tier == 'thorough'
    jobs = []

    def add(h, cfg, block=2, **kw):
        jobs.append(Job(IO + h, cfg, pkg_key='bounds', block=block,
                        max_paths=kw.get('max_paths', 3000)))
    for d in (1, 2, 3):
        add('io', dict(kind='UnitCube', d=d))
        add('io', dict(kind='Ellipsoid', d=d))
    pats = [[True], [False], [True, False], [False, True], [True, True],
            [False, False]]
    if thorough:
        pats += [[True, False, True], [False, False, True],
                 [False, False, False], [True, True, True]]
    for p in pats:
        add('io', dict(kind='Mixture', pattern=p, d=len(p)))
    add('io', dict(kind='PhaseShift', d=2, periodic=[1]))
    add('io', dict(kind='PhaseShift', d=3, periodic=[0, 2]))
    for n_net in (0, 1, 2):
        add('io', dict(kind='NeuralBound', d=2 if n_net < 2 else 1,
                       n_net=n_net))
    for unit in (True, False):
        add('io', dict(kind='Union', d=1, unit=unit, members=['ell'],
                       cache=1, unroll=3))
        add('io', dict(kind='Union', d=1, unit=unit, members=[[True]],
                       cache=0, sampled=True, unroll=3))
    add('io', dict(kind='Union', d=1, unit=True, members=['ell', 'ell'],
                   cache=1, unroll=2), block=1)
    add('update', dict(kind='Union', d=1, members=['ell'], cache=1, n=2,
                       unroll=3))
    add('update', dict(kind='Union', d=1, members=[[True]], cache=1, n=2,
                       unroll=3, unit=False))
    add('io', dict(kind='NautilusBound', d=1, n_neural=1, n_net=0,
                   members=[[True]], cache=1, unroll=6), block=B)
    add('io', dict(kind='NautilusBound', d=1, n_neural=1, n_net=0,
                   members=[[True]], cache=1, unroll=6, periodic=[0]),
        block=B)
    add('io', dict(kind='NautilusBound', d=1, n_neural=2, n_net=0,
                   members=[[True]], cache=0, sampled=True, unroll=5),
        block=B)
    add('io', dict(kind='NautilusBound', d=1, n_neural=1, n_net=1,
                   members=[[True]], cache=1, unroll=5), block=B)
    add('update', dict(kind='NautilusBound', d=1, n_neural=1, n_net=0,
                       members=[[True]], cache=1, n=2, unroll=8), block=B,
        max_paths=6000)
    # the cache is drained to exactly zero rows before the update
    add('update', dict(kind='NautilusBound', d=1, n_neural=1, n_net=0,
                       members=[[True]], cache=1, n=1, unroll=8), block=B)
    add('update', dict(kind='Union', d=1, members=['ell'], cache=1, n=1,
                       unroll=3))
    # record order of many members (field-level comparison, no sampling)
    add('io_fields', dict(kind='Union', d=1, unit=True,
                          members=['ell'] * 12, cache=1))
    add('io_fields', dict(kind='NautilusBound', d=1, n_neural=11, n_net=0,
                          members=[[True]] * 11, cache=1))
    if thorough:
        add('io', dict(kind='Union', d=2, unit=True,
                       members=[[True, False], [True, False]], cache=1,
                       unroll=2), block=1, max_paths=20000)
        add('io', dict(kind='NautilusBound', d=2, n_neural=1, n_net=1,
                       members=[[True, False]], cache=1, unroll=5,
                       periodic=[0]), block=B, max_paths=30000)
        add('update', dict(kind='NautilusBound', d=1, n_neural=1, n_net=1,
                           members=[[True]], cache=1, n=2, unroll=8,
                           periodic=[0]), block=B, max_paths=30000)
    return jobs
