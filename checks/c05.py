from vlib.runner import Job
from . import common

MIR = 'harness.sampler_file:mirror'

META = dict(
    explanation='Bounded symbolic verification of C05, reformulated as two '
    'solver-checkable facts. (1) File mirrors state: the real Sampler.write '
    '/ write_shell_update / bound write+update and the real resume branch '
    'of Sampler.__init__ run over a journalled in-memory HDF5 model; from '
    'an arbitrary invariant state a full write followed by a resume yields '
    'an object equal to the live one on every field any method reads '
    '(counters, per-shell vectors, all stored arrays cell by cell, transfer '
    'set, generator state, identity and proposal-cache token of every '
    'bound, shared generator), and after one/two iterations of the real '
    'run() with a checkpoint file (bound insertion, first batch, every '
    'batch in both phases, end of exploration) the file again mirrors the '
    'new state. Cells are compared as terms, so "bit-identical" is term '
    'identity. (2) A step is a deterministic function of the state and '
    'run() re-entered with its guard false does nothing (C10/C11). Together: '
    'stopping after any batch and resuming continues from an identical '
    'state.',
    bounds=dict(K='1 quick / 2 thorough', states='<= 3 shells, <= 3 samples, '
                '<= 2 transfer candidates, n_batch <= 2'),
    functions=['sampler.py:Sampler.write', 'Sampler.write_shell_update',
               'Sampler.__init__ (resume branch)', 'Sampler.run',
               'bounds/basic.py:UnitCube.write/read'],
    stubs=common.SAMPLER_STUBS + [
        'h5py / pathlib.Path / os.replace: symh5 model (stores and returns '
        'what was written; mode and resize rules of h5py); validation runs '
        'use real h5py in a temporary directory',
        'NautilusBound persistence: identity + cache token written by '
        'write/update (the real classes are covered by C09)'],
    outside=['that HDF5 returns float64/int64/str bit-exactly (trusted)',
             'externally edited files', 'real bound classes (C09)'],
    assumptions=['C09 for the real bound classes', 'C11 (a step is a '
                 'function of the state)'])


def jobs(tier):
    thorough = tier == 'thorough'
    jobs = []

    def add(cfg, **kw):
        jobs.append(Job(MIR, cfg, pkg_key='sampler',
                        max_paths=kw.get('max_paths', 8000), split=9))
    for m, end, disc in [([1, 1], [1, 1], False), ([2, 1], [1, 0], True)]:
        for nb in (1, 2):
            add(dict(m=m, explored=True, end_exp=end, discard=disc,
                     n_batch=nb, K=1))
    add(dict(m=[1, 1], explored=True, end_exp=[1, 1], n_batch=1, K=1,
             blobs='scalar'))
    add(dict(m=[], explored=False, n_batch=1, K=1))
    add(dict(m=[], explored=False, n_batch=2, K=1))
    for m, prov in [([1, 1, 0], [0]), ([1, 0, 1], []), ([1, 1], [0])]:
        add(dict(m=m, explored=False, n_batch=1, K=1, prov=prov,
                 no_new_bound=True, run_discard=bool(prov)))
    add(dict(m=[2], explored=False, n_batch=1, K=1, n_live=1))
    # many shells: the order of the records in the file
    jobs.append(Job('harness.sampler_file:write_resume',
                    dict(m=[1] * 12, explored=True, end_exp=[1] * 12),
                    pkg_key='sampler'))
    jobs.append(Job('harness.sampler_file:write_resume',
                    dict(m=[1] * 12, explored=False, prov=[0, 3]),
                    pkg_key='sampler'))
    # the real bound classes through write / read / update (harness of C09)
    B = {'union': 1, 'nautilus': 2}
    for h, cfg, blk in [
            ('io', dict(kind='NeuralBound', d=1, n_net=2), 2),
            ('io', dict(kind='NautilusBound', d=1, n_neural=1, n_net=1,
                        members=[[True]], cache=1, unroll=5), B),
            ('update', dict(kind='NautilusBound', d=1, n_neural=1, n_net=0,
                            members=[[True]], cache=1, n=1, unroll=8), B),
            ('update', dict(kind='NautilusBound', d=1, n_neural=1, n_net=0,
                            members=[[True]], cache=1, n=2, unroll=8), B)]:
        jobs.append(Job('harness.bound_io:' + h, cfg, pkg_key='bounds',
                        block=blk, max_paths=6000))
    # the empty unit-cube shell was removed: the first bound is a nautilus
    # bound whose sampling progress must reach the file as well
    add(dict(m=[1, 1], explored=True, end_exp=[1, 1], n_batch=1, K=1,
             first_removed=True))
    # the view is switched between two run() slices; the next batch boundary
    # must be resumable with the switched view
    add(dict(m=[1, 1], explored=True, end_exp=[1, 1], n_batch=1, K=1,
             toggle_before=True))
    add(dict(m=[2, 1], explored=True, end_exp=[1, 1], discard=True,
             n_batch=1, K=1, toggle_before=True))
    if thorough:
        add(dict(m=[1, 1], explored=True, end_exp=[1, 0], discard=True,
                 n_batch=1, K=2))
        add(dict(m=[], explored=False, n_batch=1, K=2))
        add(dict(m=[1, 1, 0], explored=False, n_batch=2, K=1, prov=[0, 1],
                 no_new_bound=True, blobs='scalar'), max_paths=20000)
        add(dict(m=[1, 1, 1], explored=True, end_exp=[1, 1, 1], n_batch=1,
                 K=1))
    return jobs
