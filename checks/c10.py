from . import common

META = dict(
    explanation='Bounded symbolic verification of C10: the real Sampler.run '
    'is executed symbolically, unrolled at most K loop iterations, from the '
    'empty sampler and from arbitrary invariant states in both phases, with '
    'symbolic n_like_max, timeout, n_shell, n_eff target and f_live '
    'threshold, a symbolic non-decreasing clock and a likelihood stub that '
    'logs every call. z3 shows: n_like advances by exactly the number of '
    'points passed to the likelihood; each iteration evaluates exactly one '
    'batch of n_batch points, all in the unit cube before the transform; no '
    'iteration starts with n_like >= n_like_max or the clock past the '
    'timeout (so the overshoot is below one batch); the returned value '
    'equals "explored and every shell_n >= n_shell and n_eff >= target" on '
    'the final state; re-entering run() when that holds evaluates nothing '
    'and draws nothing. The step harness shows the same per add_samples.',
    bounds=dict(K='1 quick / 2 thorough loop iterations (later iterations: '
                'histories in which the time limit is reached)',
                states='<= 3 shells, <= 3 stored samples, n_batch <= 2',
                n_shell='0..3'),
    functions=['sampler.py:Sampler.run', 'Sampler.add_samples',
               'Sampler.sample_shell', 'Sampler.evaluate_likelihood',
               'Sampler.add_bound', 'Sampler.f_live', 'Sampler.n_eff',
               'discard_exploration setter'],
    stubs=common.SAMPLER_STUBS + ['time(): non-decreasing symbolic reals'],
    outside=['support of evaluated points for real bounds rests on the '
             'bound contract (C07) and on C16 for the periodic shift',
             'more loop iterations than K'],
    assumptions=['likelihood stub counts calls faithfully'])


def jobs(tier):
    from vlib.runner import Job
    # counter across resumes: the stored count is the live count after
    # every batch (file-mirrors-state harness of C05, sampling phase)
    mir = [Job('harness.sampler_file:mirror',
               dict(m=[1, 1], explored=True, end_exp=[1, 1], n_batch=nb, K=1),
               pkg_key='sampler', max_paths=8000, split=9) for nb in (1, 2)]
    # counter in every evaluation mode (harness of C03: n_like equals the
    # number of points passed to the likelihood after two batches)
    ev = [Job('harness.sampler_eval:two_batches',
              dict(vectorized=vec, prior=prior, blobs=None, n_batch=nb),
              pkg_key='sampler')
          for vec in (False, True)
          for prior in ('fn', 'prior_dict', 'prior_array') for nb in (1, 2)]
    return (common.run_jobs(tier, ['C10']) +
            common.add_samples_jobs(tier, ['C10']) + mir + ev)
