from . import common

META = dict(
    explanation='Bounded symbolic verification (own engine symx over z3) of '
    'the inductive step of the C01 invariant: the real Sampler.add_samples / '
    'sample_shell / shell_association / add_bound (and the end-of-exploration '
    'block via run()) are executed symbolically from an ARBITRARY state '
    'satisfying the invariant (points, likelihoods, counters, bound '
    'geometries all symbolic; bounds are uninterpreted predicates), and for '
    'every feasible path the solver must show that every stored sample is in '
    'the unit cube, in its own bound, in no later bound, that transfer '
    'candidates keep their provenance, and that shell_association agrees. '
    'Counterexamples are replayed on the unmodified code with real numpy.',
    bounds=dict(shells='<=3 quick / <=4 thorough', points_per_shell='<=2/3',
                transfer_candidates='<=2/3', n_batch='<=2/3',
                proposal_rounds='2/3 (longer rounds are cut, counted)',
                n_dim=2),
    functions=['sampler.py:Sampler.add_samples', 'Sampler.sample_shell',
               'Sampler.shell_association', 'Sampler.add_bound',
               'Sampler.evaluate_likelihood', 'Sampler.update_shell_info',
               'bounds/basic.py:UnitCube.sample/contains'],
    stubs=common.SAMPLER_STUBS,
    outside=['sizes and unrollings above the bounds', 'that real bounds meet '
             'the stub contract (C07)', 'floating-point rounding'],
    assumptions=['induction principle: Inv at construction + preserved by '
                 'every operation => Inv after every history',
                 'bound.contains is a fixed function of the point'])


def _resume_jobs():
    from vlib.runner import Job
    return [Job('harness.sampler_file:write_resume',
                dict(m=[1] * 12, explored=e, end_exp=[1] * 12, props=['C01']),
                pkg_key='sampler') for e in (True, False)]


def jobs(tier):
    return (common.add_samples_jobs(tier, ['C01']) +
            common.add_bound_jobs(tier, ['C01']) +
            common.run_jobs(tier, ['C01'], which=('end', 'bound', 'empty')) +
            _resume_jobs())
