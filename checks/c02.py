from vlib.runner import Job
from . import common

ACC = 'harness.sampler_accessors:accessors'

META = dict(
    explanation='Bounded symbolic verification of C02. (1) Bookkeeping: the '
    'real add_samples / add_bound are executed symbolically from an arbitrary '
    'invariant state; z3 shows array alignment, shell_n == number of samples '
    'in view, proposal counters advanced by exactly the proposals drawn, '
    'kept fraction <= 1, and the stored statistics equal what '
    'update_shell_info defines for the stored arrays. (2) Estimators: the '
    'real log_z, n_eff, eta, posterior() and shell volumes are executed on '
    'an arbitrary invariant state and compared with an independent '
    'specification written per sample in the linear (exp) domain - '
    'exp(log_z) = sum l_ij V_i/n_i, weights = those terms / Z summing to 1, '
    'n_eff = Kish ESS, V_i = V_bound n_i/n_sample <= V_bound - by the '
    '"linear twin" translation (exp/log/logsumexp -> products/sums of '
    'positive reals) discharged with z3 nlsat. Algebraically equal '
    'refactors pass, any other change of an estimator fails. (3) Range: '
    'every argument n_eff hands to np.exp is shown to be <= 709 (the '
    'float64 overflow threshold) for every likelihood scale - the maximum is '
    'subtracted first; a counterexample is a likelihood scale at which the '
    'real n_eff is inf/nan, replayed against a reference computed with '
    'unbounded exponents.',
    bounds=dict(accessor_states='2 shells x <=2 samples (quick), 3 shells / '
                '3 samples for log_z, weights, volumes (thorough); eta: 1 '
                'shell x 2 or 2 shells x 1 (nlsat does not finish beyond)',
                step_states='as C01', n_dim=2),
    functions=['sampler.py:Sampler.update_shell_info', 'Sampler.log_z',
               'Sampler.n_eff', 'Sampler.eta', 'Sampler.posterior',
               'Sampler.add_samples', 'Sampler.add_bound',
               'discard_exploration view (start index / proposal count)'],
    stubs=common.SAMPLER_STUBS + [
        'exp/log/logsumexp uninterpreted in the main pool, expanded to real '
        'arithmetic in the nlsat pool'],
    outside=['float64 rounding (mathematical reals; overflow of exp in n_eff '
             'is covered by the range obligation, underflow and the other '
             'estimators are not)', 'larger states',
             'eta for more than two samples over two shells'],
    assumptions=['induction principle over operations'])


def acc_jobs(tier):
    thorough = tier == 'thorough'
    jobs = []
    base = ['volume', 'log_z', 'weights', 'n_eff']
    states = [
        dict(m=[2, 2], explored=True, end_exp=[1, 1], discard=False),
        dict(m=[2, 2], explored=True, end_exp=[1, 0], discard=True),
        dict(m=[2, 1], explored=True, end_exp=[2, 0], discard=True),
        dict(m=[2, 1], explored=False),
        dict(m=[2, 1], explored=False, neg_inf=[[0, 1]]),
        dict(m=[1, 2], explored=False, neg_inf=[[1, 0], [1, 1]]),
        dict(m=[2, 0], explored=False),
        dict(m=[1, 1], explored=True, end_exp=[1, 1], neg_inf=[[0, 0]]),
    ]
    for s in states:
        jobs.append(Job(ACC, dict(s, which=base), pkg_key='sampler'))
    for s in [dict(m=[2], explored=True, end_exp=[1]),
              dict(m=[1, 1], explored=True, end_exp=[1, 1]),
              dict(m=[2], explored=True, end_exp=[0], discard=True)]:
        jobs.append(Job(ACC, dict(s, which=['eta']), pkg_key='sampler'))
    if thorough:
        for s in [dict(m=[2, 1, 2], explored=True, end_exp=[1, 1, 1]),
                  dict(m=[3, 2], explored=True, end_exp=[1, 1], discard=True),
                  dict(m=[1, 1, 1], explored=False, neg_inf=[[1, 0]]),
                  dict(m=[3, 3], explored=False)]:
            jobs.append(Job(ACC, dict(s, which=['volume', 'log_z',
                                                'weights']),
                            pkg_key='sampler', query_timeout_ms=120000))
        jobs.append(Job(ACC, dict(m=[1, 1, 1], explored=True,
                                  end_exp=[1, 1, 1], which=['n_eff']),
                        pkg_key='sampler'))
    return jobs


def jobs(tier):
    return (acc_jobs(tier) + common.add_samples_jobs(tier, ['C02']) +
            common.add_bound_jobs(tier, ['C02']) +
            common.run_jobs(tier, ['C02'], which=('end', 'empty', 'explored')))
