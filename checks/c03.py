from vlib.runner import Job
from . import common

EV = 'harness.sampler_eval:two_batches'

META = dict(
    explanation='Bounded symbolic verification of C03. (1) The real '
    'evaluate_likelihood / add_samples / posterior(return_blobs=True) are '
    'executed symbolically for two batches in a row from the empty sampler '
    'in every evaluation mode ({scalar, vectorised} x {function prior that '
    'overwrites its argument, nautilus.Prior as array, as dictionary} x '
    '{no blob, scalar, two blobs, array blob} x {inferred, float, record '
    'dtype} x batch size 1..3 x {no pool, ordered pool}); likelihood and '
    'blobs are uninterpreted functions of the point, and z3 must show every '
    'stored and every returned row carries L(T(p)) and B(T(p)) of its own '
    'point, the stored point is untouched and nothing raises. (2) The step '
    'harnesses (add_samples with transfers, add_bound) preserve "each row '
    'faithful, each evaluated point once" from an arbitrary invariant state.',
    bounds=dict(n_batch='1..2 quick / 1..3 thorough', n_dim=2,
                step_states='as C01'),
    functions=['sampler.py:Sampler.evaluate_likelihood',
               'Sampler.add_samples', 'Sampler.add_bound',
               'Sampler.posterior', 'prior.py:Prior.unit_to_physical',
               'Prior.unit_to_dictionary', 'Prior.physical_to_dictionary'],
    stubs=common.SAMPLER_STUBS + [
        'scipy.stats.uniform -> loc + (1-q)*scale (isf)',
        'pool.map: order-preserving map on copies (trusted contract of '
        'multiprocessing.Pool.map)'],
    outside=['numpy dtype conversion of blob values (float32, strings)',
             'worker scheduling of a real pool'],
    assumptions=['likelihood is a pure function of the transformed point'])


def eval_jobs(tier):
    thorough = tier == 'thorough'
    jobs = []
    for vec in (False, True):
        for prior in ('fn', 'prior_dict', 'prior_array'):
            for blobs, dts in ((None, [None]), ('scalar', [None, 'float']),
                               ('two', [None, 'float', 'record']),
                               ('array', [None, 'float']),
                               ('mixed', [None])):
                for dt in dts:
                    for nb in ((1, 2, 3) if thorough else (1, 2)):
                        pools = [None] if vec else [None, 2]
                        if thorough and not vec:
                            pools.append(3)
                        for pool in pools:
                            if pool and (nb < 2 or prior != 'fn'
                                         and not thorough):
                                continue
                            jobs.append(Job(EV, dict(
                                vectorized=vec, prior=prior, blobs=blobs,
                                blobs_dtype=dt, n_batch=nb, pool=pool),
                                pkg_key='sampler'))
    return jobs


def fault_jobs(tier):
    """the likelihood raises inside a batch and the exception reaches the
    caller: the stored columns still belong together afterwards"""
    from vlib.runner import Job
    out = []
    for cfg in [dict(m=[1, 1], shell=1, n_batch=2, explored=True,
                     end_exp=[1, 1], blobs='scalar', fail_call=1),
                dict(m=[1, 1], shell=0, n_batch=1, explored=True,
                     end_exp=[1, 1], fail_call=0),
                dict(m=[1, 1], shell=0, n_batch=2, explored=True,
                     end_exp=[1, 1], vectorized=True, blobs='scalar',
                     fail_call=1),
                dict(m=[1, 1, 0], prov=[0], shell=-1, n_batch=1,
                     explored=False, fail_call=0),
                dict(m=[1, 1], shell=-1, n_batch=2, explored=False,
                     blobs='scalar', fail_call=1)]:
        out.append(Job('harness.sampler_steps:add_samples',
                       dict(cfg, props=['C03']), pkg_key='sampler',
                       max_paths=3000))
    return out


def jobs(tier):
    return (eval_jobs(tier) + fault_jobs(tier) +
            common.add_samples_jobs(tier, ['C03'], blobs=(None, 'scalar'),
                                    vectorized=(False, True)) +
            common.add_bound_jobs(tier, ['C03'], blobs=(None, 'scalar')) +
            common.run_jobs(tier, ['C03'], which=('end', 'empty')))
