from vlib.runner import Job
from . import common

REL = 'harness.sampler_rel:relational'

META = dict(
    explanation='Bounded symbolic verification of C11 as relational '
    'checks: the same real step (add_samples, add_bound, one iteration of '
    'run()) is executed twice from the same symbolic state with the same '
    'environment (generator stream, proposal points, clock, likelihood '
    'function), differing in exactly one setting that must be invisible - '
    'scalar vs vectorised likelihood, no pool vs ordered pool, verbose off '
    'vs on (print_status runs for real), no checkpoint file vs a file being '
    'written, and calling every read-only accessor (log_z, n_eff, eta, '
    'f_live, log_v_live, posterior(), shell_bound_occupation, '
    'shell_association, evidence(), effective_sample_size(), '
    'asymptotic_sampling_efficiency(), print_status) before and after the '
    'step. On every path the two post-states (all fields, generator state, '
    'bound cache tokens), the returned values and the sequence of '
    'likelihood arguments must be identical terms. Determinism taint: no '
    'generator is created without a seed, global np.random is not '
    'reachable, every bound built receives the sampler\'s generator.',
    bounds=dict(states='<= 3 shells, <= 3 samples, n_batch <= 2',
                steps='one step per comparison'),
    functions=['sampler.py:Sampler.add_samples', 'Sampler.add_bound',
               'Sampler.run', 'Sampler.evaluate_likelihood',
               'Sampler.print_status', 'all read-only accessors',
               'Sampler.write / write_shell_update (file variant)'],
    stubs=common.SAMPLER_STUBS + [
        'pool.map: order-preserving map on copies (the trusted contract of '
        'multiprocessing.Pool.map; worker scheduling is outside this family)'],
    outside=['OS scheduling inside a real pool', 'BLAS thread '
             'nondeterminism', 'sklearn internals given equal random_state',
             'posterior(equal_weight=True) draws from the generator by '
             'design (C14) and is not required to be invisible'],
    assumptions=['"unweighted posterior" = posterior() without resampling'])


def jobs(tier):
    thorough = tier == 'thorough'
    jobs = []

    def add(cfg, **kw):
        jobs.append(Job(REL, cfg, pkg_key='sampler',
                        max_paths=kw.get('max_paths', 8000), split=10))
    expl = dict(m=[1, 1], explored=True, end_exp=[1, 1], shell=0,
                op='add_samples')
    for variant in ('vectorized', 'pool', 'verbose'):
        for nb in (1, 2):
            add(dict(expl, n_batch=nb, variant=variant))
        add(dict(m=[1, 1, 0], explored=False, prov=[0], shell=-1, n_batch=1,
                 op='add_samples', variant=variant))
    add(dict(expl, n_batch=1, variant='accessors', blobs='scalar'))
    add(dict(m=[1, 1], explored=False, shell=-1, n_batch=1, op='add_samples',
             variant='accessors'))
    # accessors read while a shell is empty (discard view right after the
    # exploration; newest shell during the exploration)
    add(dict(expl, n_batch=1, discard=True, variant='accessors'))
    add(dict(m=[1, 1, 0], explored=False, prov=[0], shell=-1, n_batch=1,
             op='add_samples', variant='accessors'))
    add(dict(m=[1, 1], explored=True, end_exp=[1, 1], n_batch=1, op='run',
             variant='file'))
    add(dict(m=[], explored=False, n_batch=1, op='run', variant='file'))
    add(dict(m=[1, 1], explored=True, end_exp=[1, 1], n_batch=1, op='run',
             variant='verbose'))
    add(dict(m=[], explored=False, n_batch=1, op='run', variant='verbose'))
    add(dict(m=[2, 1], explored=False, n_live=1, op='add_bound',
             variant='verbose'))
    add(dict(m=[2], explored=False, n_live=1, op='add_bound',
             variant='accessors'))
    # generators inside the bound constructors
    N = 'harness.nautilus_steps:'
    for h, cfg in [('mixture_compute', dict(d=1, n=2)),
                   ('mixture_compute', dict(d=2, n=3)),
                   ('union_compute_rng', dict(d=1, n=4)),
                   ('union_compute_rng', dict(d=1, n=3, unit=False)),
                   ('nb_pool_merge', dict(d=1, pool=2, unroll=4,
                                          members_in_cube=True,
                                          open_uniform=True))]:
        jobs.append(Job(N + h, cfg, pkg_key='bounds',
                        block={'union': 1, 'nautilus': 2}, max_paths=6000))
    if thorough:
        add(dict(expl, n_batch=2, variant='accessors'), max_paths=20000)
        add(dict(m=[1, 1, 0], explored=False, prov=[0], n_batch=1, op='run',
                 no_new_bound=True, variant='verbose'), max_paths=20000)
        add(dict(m=[1, 1, 0], explored=False, prov=[0], n_batch=1, op='run',
                 no_new_bound=True, variant='file'), max_paths=20000)
        add(dict(expl, n_batch=3, variant='pool', pool_size=3))
        add(dict(m=[2, 1, 1], explored=True, end_exp=[1, 1, 1], shell=1,
                 n_batch=2, op='add_samples', variant='vectorized',
                 blobs='scalar'))
    return jobs
