"""Reproductions of the genuine defects found on the pinned tree (7f8c927),
each against the real nautilus code.  Usage: repro.py <name>; exit 1 = the
defect shows, exit 0 = it does not (repaired tree)."""
import sys, os, tempfile
sys.path.insert(0, os.environ.get('NAUTILUS_REPO', '/repo'))
import numpy as np


def c16():
    from nautilus.bounds import PhaseShift
    s = PhaseShift()
    s.periodic = np.array([0])
    s.centers = np.array([0.5000000002761806])
    y = s.transform(np.array([[2.761806327321972e-10, 0.3]]))
    print('transform ->', repr(y))
    return not (0 <= y[0, 0] < 1)


def c09():
    import h5py
    from nautilus.bounds import Union
    rng = np.random.default_rng(0)
    pts = rng.random((30, 2))
    u = Union.compute(pts, unit=False, rng=rng)
    with tempfile.TemporaryDirectory() as d:
        with h5py.File(d + '/f.h5', 'w') as f:
            u.write(f.create_group('b'))
        with h5py.File(d + '/f.h5', 'r') as f:
            v = Union.read(f['b'], rng=np.random.default_rng(0))
    try:
        v.contains(pts)
    except AttributeError as e:
        print('read-back contains raises', e)
        return True
    return False


def c13a():
    from nautilus.bounds import Union
    # data of tests/test_bounds.py::test_union_split_and_trim
    np.random.seed(0)
    sph = np.random.normal(size=(1000, 3))
    sph = sph / np.sqrt(np.sum(sph**2, axis=1))[:, np.newaxis]
    sph *= np.random.uniform(size=1000)[:, np.newaxis]**(1.0 / 3)
    points = np.vstack([sph, sph + 10, sph[:30] + 1e7])
    u = Union.compute(points, unit=False, n_points_min=50,
                      rng=np.random.default_rng(0))
    try:
        ops = []
        for op in ['split', 'split', 'trim', 'split', 'split']:
            r = getattr(u, op)()
            ops.append((op, r, len(u.bounds), len(u.block)))
            if len(u.block) != len(u.bounds):
                print('record lengths differ after', ops)
                return True
    except ValueError as e:
        print(ops, 'raises', e)
        return True
    return False


def c13b_case(seed):
    from nautilus.bounds import Union
    os.environ.setdefault('OMP_NUM_THREADS', '1')
    rng = np.random.default_rng(seed)
    d = int(rng.integers(2, 4))
    npm = int(rng.integers(d + 1, d + 6))
    n = int(rng.integers(2 * npm, 2 * npm + 4))
    kind = int(rng.integers(0, 4))
    if kind == 0:
        pts = rng.normal(size=(n, d)) * np.exp(rng.normal(size=(n, 1)) * 2)
    elif kind == 1:
        k = int(rng.integers(1, 4))
        pts = np.vstack([rng.normal(size=(n - k, d)) * 1e-3,
                         rng.normal(size=(k, d)) * 3])
    elif kind == 2:
        pts = rng.standard_cauchy(size=(n, d))
    else:
        m = n // 2
        pts = np.vstack([rng.normal(size=(m, d)),
                         rng.normal(size=(n - m, d)) * 1e-2 + 2.5])
    u = Union.compute(pts, unit=False, n_points_min=npm,
                      rng=np.random.default_rng(seed))
    try:
        ok = u.split()
    except ValueError as e:
        return 'seed %d: split raises %s' % (seed, e)
    if ok:
        sizes = [len(p) for p in u.points_bounds]
        if min(sizes) < npm:
            return 'seed %d: n_points_min=%d sizes=%s' % (seed, npm, sizes)
    return None


def c13b():
    import warnings
    warnings.simplefilter('ignore')
    bad = [r for r in map(c13b_case, [317, 1056, 1441, 1655, 2005, 2275,
                                      2779, 2864, 3187, 3507]) if r]
    print('\n'.join(bad))
    return bool(bad)


def c15():
    from nautilus import Prior
    bad = False
    p = Prior()
    p.add_parameter('a')
    try:
        p.add_parameter('b', dist='nope')
    except ValueError:
        pass
    if len(p.keys) != len(p.dists) or 'b' in p.keys:
        print('rejected declaration left keys', p.keys, 'dists', len(p.dists))
        bad = True
    q = Prior()
    q.add_parameter('x_1')
    try:
        q.add_parameter()
    except ValueError:
        pass
    if len(set(q.keys)) != len(q.keys):
        print('generated key collides:', q.keys)
        bad = True
    return bad


def c03():
    from nautilus import Sampler
    def like(x):
        return -float(np.sum((x - 0.5) ** 2)), float(x[0])
    s = Sampler(lambda x: x, like, n_dim=2, n_live=10, n_batch=1, seed=0,
                n_networks=0)
    try:
        s.run(n_like_max=5, verbose=False)
        pts, lw, ll, bl = s.posterior(return_blobs=True)
        if bl.shape != (len(pts),):
            print('blob shape', bl.shape, 'for', len(pts), 'points')
            return True
    except ValueError as e:
        print('n_batch=1 with a blob raises:', e)
        return True
    return False



def c05():
    """resume after the (empty) unit-cube shell was removed at the end of
    exploration: bound 0 is a NautilusBound but is read back as UnitCube."""
    import shutil
    import warnings
    warnings.simplefilter('ignore')
    from nautilus import Sampler

    def like(x):
        return -0.5 * float(np.sum((x - 0.5) ** 2))
    kw = dict(n_dim=2, n_live=6, n_batch=6, n_networks=0,
              enlarge_per_dim=1.6, n_points_min=3)
    seed = 158
    d = tempfile.mkdtemp()
    try:
        fp = d + '/ck.h5'
        s = Sampler(lambda x: x, like, seed=seed, filepath=fp, **kw)
        while len(s.bounds) < 2 and s.n_like < 200:
            s.run(f_live=1e-9, n_like_max=s.n_like + 6)
        s.run(f_live=1.0, n_like_max=s.n_like + 6)
        s2 = Sampler(lambda x: x, like, seed=seed, filepath=fp, **kw)
        t1 = [type(b).__name__ for b in s.bounds]
        t2 = [type(b).__name__ for b in s2.bounds]
        s.run(f_live=1.0, n_eff=50, n_like_max=s.n_like + 60)
        s2.run(f_live=1.0, n_eff=50, n_like_max=s2.n_like + 60)
        print('bounds live', t1, 'resumed', t2, 'log_z', s.log_z, s2.log_z)
        return t1 != t2 or s.log_z != s2.log_z
    finally:
        shutil.rmtree(d)


def c12():
    """discard_exploration switched on between two run() slices, more
    batches, then a resume: the per-batch update rewrote the shell statistics
    of the discard view but not the flag, so the resumed sampler held
    view statistics with the flag off (posterior() raises)."""
    import shutil
    import warnings
    warnings.simplefilter('ignore')
    from scipy.stats import multivariate_normal
    from nautilus import Sampler

    def like(x):
        return multivariate_normal.logpdf(x, mean=[0.5, 0.5], cov=0.01)
    kw = dict(n_dim=2, n_live=100, n_networks=0, seed=1)
    d = tempfile.mkdtemp()
    try:
        fp = d + '/ck.h5'
        s = Sampler(lambda x: x, like, filepath=fp, **kw)
        s.run(n_eff=200)
        s.discard_exploration = True
        s.run(n_eff=400)
        r = Sampler(lambda x: x, like, filepath=fp, resume=True, **kw)
        print('live flag', s.discard_exploration, 'resumed flag',
              r.discard_exploration, 'shell_n', int(r.shell_n.sum()),
              'stored', sum(len(x) for x in r.log_l))
        try:
            a, b = r.posterior(), s.posterior()
            return len(a[0]) != len(b[0]) or r.log_z != s.log_z or \
                r.discard_exploration != s.discard_exploration
        except ValueError as e:
            print('posterior() of the resumed sampler raised', e)
            return True
    finally:
        shutil.rmtree(d)


if __name__ == '__main__':
    sys.exit(1 if globals()[sys.argv[1]]() else 0)
