"""C12 toggle: discard_exploration is a pure view."""
from vlib import world
from . import sampler_state as st
from .sampler_steps import call, ident, snapshot


def stats(W, S):
    B = len(S.bounds)
    out = []
    for name in ['shell_n', 'shell_n_sample', 'shell_n_eff', 'shell_log_l',
                 'shell_log_v', 'shell_log_l_min', 'shell_n_sample_exp',
                 'shell_end_exp']:
        a = getattr(S, name)
        out.extend(('%s[%d]' % (name, i), a[i]) for i in range(len(a)))
    out.append(('n_like', S.n_like))
    for nm in ('log_z', 'n_eff', 'eta'):
        ok, v = call(W, 'C12:%s-no-raise' % nm, lambda: getattr(S, nm))
        out.append((nm, v if ok else None))
    ok, post = call(W, 'C12:posterior-no-raise', lambda: S.posterior())
    if ok:
        pts, lw, ll = post
        for k in range(len(lw)):
            out.append(('log_w[%d]' % k, lw[k]))
            out.append(('log_l[%d]' % k, ll[k]))
            for c in range(pts.shape[1]):
                out.append(('pt[%d,%d]' % (k, c), pts[k][c]))
    return out


def toggle(W, cfg):
    S, like = st.build(W, cfg)
    start = S._discard_exploration
    snap = snapshot(S)
    before = stats(W, S)
    draws = S.rng.draws
    # non-bool is rejected and changes nothing
    try:
        S.discard_exploration = 1
        W.require(False, 'C12:non-bool-rejected', 'accepted 1')
    except ValueError:
        W.ok('C12:non-bool-rejected')
    mid = stats(W, S)
    same_stats(W, before, mid, 'C12:rejected-toggle-changes-nothing')
    ok, _ = call(W, 'C12:setter-no-raise',
                 lambda: setattr(S, 'discard_exploration', not start))
    if not ok:
        return
    # the view with discard on = post-exploration suffixes
    view_on = S if not start else None
    if not start:
        check_view(W, S)
    ok, _ = call(W, 'C12:setter-no-raise',
                 lambda: setattr(S, 'discard_exploration', start))
    if not ok:
        return
    if start:
        check_view(W, S)
    after = stats(W, S)
    same_stats(W, before, after, 'C12:toggle-restores-bit-for-bit')
    W.require(S.rng.draws == draws, 'C12:toggle-draws-nothing', '')
    # stored samples untouched
    for i in range(len(snap['points'])):
        rows = st.rows_of(S.points[i])
        good = len(rows) == len(snap['points'][i]) and all(
            all(ident(W, x, y) for x, y in zip(p, q))
            for p, q in zip(rows, snap['points'][i]))
        W.require(good, 'C12:toggle-keeps-samples', 'shell %d' % i)


def same_stats(W, a, b, label):
    W.require(len(a) == len(b), label, 'different number of statistics')
    from .sampler_steps import require_same
    for (na, va), (nb, vb) in zip(a, b):
        if na != nb:
            W.require(False, label, '%s vs %s' % (na, nb))
        else:
            require_same(W, va, vb, label, na)


def check_view(W, S):
    """with discard on, posterior() is exactly the suffix after the cut"""
    ok, post = call(W, 'C12:posterior-no-raise', lambda: S.posterior())
    if not ok:
        return
    pts, lw, ll = post
    exp = []
    for i in range(len(S.points)):
        s = W.concrete_int(S.shell_end_exp[i])
        rows = st.rows_of(S.points[i])
        for j in range(s, len(rows)):
            exp.append((rows[j], S.log_l[i][j]))
        W.require(S.shell_n[i] == len(rows) - s, 'C12:discard-view-shell_n',
                  'shell %d' % i)
        if len(rows) - s == 0:
            W.require(W.same(S.shell_n_eff[i], 0),
                      'C12:empty-view-has-no-effective-samples',
                      'shell %d' % i)
    W.require(len(exp) == len(ll), 'C12:discard-view-rows',
              '%d rows, expected %d' % (len(ll), len(exp)))
    if len(exp) == len(ll):
        for k, (p, l) in enumerate(exp):
            W.require(W.same(ll[k], l) and all(
                W.same(pts[k][c], p[c]) is not False for c in range(len(p))),
                'C12:discard-view-rows', 'row %d' % k)
            if W.symbolic:
                for c in range(len(p)):
                    W.require(pts[k][c] == p[c], 'C12:discard-view-rows',
                              'row %d coordinate %d' % (k, c))
