"""C15 engine A (symx): declaration sequences over a key / distribution
alphabet on the real nautilus.Prior, against a reference interpreter of the
declaration list; then the real transforms on symbolic unit-cube inputs."""
import numbers

from vlib import world
from vlib.engine import SV
from .sampler_steps import call

numbers.Number.register(SV)

KEYS = [None, 'a', 'x_1', 'x_2', 7]
DISTS = ['range', 'frozen', 'number', 'link:a', 'link:x_1', 'link:zz', 'bad',
         'frozen_shared', 'bad_tuple_hi', 'bad_tuple_lo']


class Frozen(object):
    """distribution object with an inverse survival function isf = ISF_k
    (uninterpreted)."""

    def __init__(self, W, k):
        self.W, self.k = W, k

    def one(self, q):
        return self.W.uf('ISF%d' % self.k, [q])

    def isf(self, q):
        np = self.W.np
        if getattr(q, 'shape', ()) == ():
            v = self.one(q.item() if hasattr(q, 'item') and
                         getattr(q, 'shape', None) == () and
                         not isinstance(q, (float, SV)) else q)
            return v
        return np.array([self.one(q[j]) for j in range(len(q))])


class Ref(object):
    """reference interpreter of a declaration list"""

    def __init__(self):
        self.keys, self.kinds = [], []

    def declare(self, key, kind, payload):
        """returns None (accepted) or the exception class expected"""
        if key is None:
            key = 'x_%d' % len(self.keys)
        elif not isinstance(key, str):
            return TypeError
        if key in self.keys:
            return ValueError
        if kind in ('range', 'frozen'):
            entry = ('free', kind, payload)
        elif kind == 'number':
            entry = ('fixed', payload)
        elif kind.startswith('link:'):
            tgt = kind[5:]
            if tgt not in self.keys:
                return ValueError
            while self.kinds[self.keys.index(tgt)][0] == 'link':
                tgt = self.kinds[self.keys.index(tgt)][1]
            entry = ('link', tgt)
        else:
            return TypeError
        self.keys.append(key)
        self.kinds.append(entry)
        return None

    def n_free(self):
        return sum(1 for k in self.kinds if k[0] == 'free')


def pick(W, name, n):
    v = W.int(name)
    W.assume(v >= 0)
    W.assume(v < n)
    return W.concrete_int(v)


def declare(W, cfg):
    np = W.np
    P = W.pkg.prior.Prior()
    ref = Ref()
    first = cfg.get('first')          # [key index, dist index] fixed per job
    L = cfg['length']
    for step in range(L):
        if step == 0 and first is not None:
            ki, di = first
        else:
            ki = pick(W, 'key_%d' % step, len(KEYS))
            di = pick(W, 'dist_%d' % step, len(DISTS))
        key, kind = KEYS[ki], DISTS[di]
        if kind == 'range':
            lo, hi = W.real('lo_%d' % step), W.real('hi_%d' % step)
            W.assume(lo < hi)
            dist, payload = (lo, hi), (lo, hi)
        elif kind == 'frozen':
            dist = Frozen(W, step)
            payload = dist
        elif kind == 'frozen_shared':
            # the same distribution object used for several parameters
            if not hasattr(W, 'shared_dist'):
                W.shared_dist = Frozen(W, 99)
            dist = W.shared_dist
            payload = dist
            kind = 'frozen'
        elif kind == 'number':
            dist = W.real('num_%d' % step)
            payload = dist
        elif kind.startswith('link:'):
            dist, payload = kind[5:], None
        elif kind == 'bad_tuple_hi':
            # a range whose bound has the wrong type
            dist, payload = (W.real('lo_%d' % step), '1'), None
        elif kind == 'bad_tuple_lo':
            dist, payload = (None, W.real('hi_%d' % step)), None
        else:
            dist, payload = [0, 1], None
        keys0, dists0 = list(P.keys), list(P.dists)
        exp = ref.declare(key, kind, payload)
        try:
            P.add_parameter(key, dist) if key is not None or True else None
            raised = None
        except (ValueError, TypeError) as e:
            raised = type(e)
        except Exception as e:
            W.fail('C15:unexpected-exception', '%s: %s' % (type(e).__name__, e))
            return
        what = 'step %d key=%r dist=%s after %r' % (step, key, kind, keys0)
        if exp is None:
            W.require(raised is None, 'C15:valid-declaration-accepted', what)
            if raised is not None:
                return
        else:
            W.require(raised is not None, 'C15:malformed-rejected', what)
            if raised is not None:
                W.require(raised is exp, 'C15:rejection-type', what + ' raised ' + raised.__name__)
            W.require(list(P.keys) == keys0 and len(P.dists) == len(dists0)
                      and all(a is b for a, b in zip(P.dists, dists0)),
                      'C15:rejected-leaves-prior-unchanged', what)
            if raised is None:
                return
        W.require(list(P.keys) == ref.keys, 'C15:keys', what)
        W.require(len(P.keys) == len(P.dists) and
                  len(set(P.keys)) == len(P.keys), 'C15:keys-unique', what)
        W.require(P.dimensionality() == ref.n_free(), 'C15:dimensionality',
                  what)
    if ref.n_free() >= 1:
        check_transforms(W, P, ref)


def expected(W, ref, u):
    """values per key for one unit-cube point u (list of scalars)"""
    vals = {}
    i = 0
    for key, k in zip(ref.keys, ref.kinds):
        if k[0] == 'free':
            if k[1] == 'range':
                lo, hi = k[2]
                vals[key] = lo + u[i] * (hi - lo)
            else:
                vals[key] = k[2].one(1 - u[i])
            i += 1
        elif k[0] == 'fixed':
            vals[key] = k[1]
    for key, k in zip(ref.keys, ref.kinds):
        if k[0] == 'link':
            vals[key] = vals[k[1]]
    return vals


def check_transforms(W, P, ref):
    np = W.np
    d = ref.n_free()
    free_keys = [k for k, kk in zip(ref.keys, ref.kinds) if kk[0] == 'free']
    for shape_n in (None, 2):
        n = 1 if shape_n is None else shape_n
        rows = []
        for j in range(n):
            row = []
            for i in range(d):
                v = W.real('u_%s_%d_%d' % (shape_n, j, i))
                W.assume(v >= 0)
                W.assume(v < 1)
                row.append(v)
            rows.append(row)
        if shape_n is None:
            pts = np.array(rows[0], dtype=float) if d else np.zeros(0)
        else:
            pts = np.array(rows, dtype=float) if d else np.zeros((n, 0))
        tag = '(d,)' if shape_n is None else '(n,d)'
        ok, phys = call(W, 'C15:unit_to_physical-no-raise',
                        lambda: P.unit_to_physical(pts))
        if not ok:
            return
        W.require(tuple(phys.shape) == tuple(pts.shape), 'C15:shape-preserved',
                  '%s -> %s' % (pts.shape, phys.shape))
        if tuple(phys.shape) != tuple(pts.shape):
            return
        ok, dic = call(W, 'C15:unit_to_dictionary-no-raise',
                       lambda: P.unit_to_dictionary(pts))
        if not ok:
            return
        W.require(sorted(dic.keys()) == sorted(ref.keys) and
                  len(dic) == len(ref.keys), 'C15:dictionary-keys',
                  '%r vs %r' % (sorted(dic.keys()), sorted(ref.keys)))
        for j in range(n):
            exp = expected(W, ref, rows[j])
            for i, k in enumerate(free_keys):
                got = phys[i] if shape_n is None else phys[j][i]
                W.require(W.same(unwrap(got), exp[k]),
                          'C15:free-parameter-own-coordinate',
                          '%s key %s' % (tag, k))
            for k in ref.keys:
                if k not in dic:
                    continue
                v = dic[k]
                got = v if shape_n is None else v[j]
                W.require(W.same(unwrap(got), exp[k]), 'C15:dictionary-value',
                          '%s key %s' % (tag, k))
    # wrong last dimension is rejected
    bad = np.zeros(d + 1)
    try:
        P.unit_to_physical(bad)
        W.require(False, 'C15:wrong-dimension-rejected', 'd+1 accepted')
    except ValueError:
        W.ok('C15:wrong-dimension-rejected')
    except Exception as e:
        W.fail('C15:wrong-dimension-rejected', repr(e))


def unwrap(v):
    if getattr(v, 'shape', None) == () and hasattr(v, 'item') and \
            not isinstance(v, SV):
        return v.item()
    return v
