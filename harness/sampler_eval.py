"""C03: the real evaluate_likelihood / add_samples / posterior(return_blobs)
in every evaluation mode, two batches in a row from the empty sampler."""
from vlib import world
from vlib.world import StubRNG
from vlib.stubs import StubNautilusBound
from . import sampler_state as st
from .sampler_steps import call, ident

INF = float('inf')


class OrderedPool(object):
    """pool.map contract: order-preserving, workers see copies."""

    def __init__(self, W, size):
        self.W, self.size = W, size

    def map(self, f, xs):
        np = self.W.np
        return [f(np.copy(x) if hasattr(x, 'shape') else x) for x in xs]


class DictLike(st.Likelihood):
    """likelihood taking a parameter dictionary (pass_dict=True)."""

    def __init__(self, W, keys, **kw):
        st.Likelihood.__init__(self, W, **kw)
        self.keys = keys

    def __call__(self, arg):
        np = self.W.np
        cols = [arg[k] for k in self.keys]
        if not self.vectorized:
            return self.one(cols)
        n = len(cols[0])
        rows = [self.one([c[j] for c in cols]) for j in range(n)]
        if self.blobs is None:
            return np.array(rows, dtype=float) if rows else np.zeros(0)
        cc = list(zip(*rows))
        return tuple(np.array(list(c)) for c in cc)


RANGES = [(0.0, 2.0), (-1.0, 1.0)]


def ref_transform(kind, p):
    if kind == 'fn':
        return list(p)
    return [lo + x * (hi - lo) for x, (lo, hi) in zip(p, RANGES)]


def two_batches(W, cfg):
    np = W.np
    pkg = W.pkg
    kind = cfg.get('prior', 'fn')
    blobs = cfg.get('blobs')
    vec = cfg.get('vectorized', False)
    nb = cfg.get('n_batch', 1)
    StubNautilusBound.new_path(next_index=1, max_sample_calls=99)
    S = object.__new__(pkg.sampler.Sampler)
    rng = StubRNG(stream=1, draws=0)
    if kind == 'fn':
        S.prior = st.ClobberPrior(W)
        like = st.Likelihood(W, blobs, vec)
        S.pass_dict = False
    else:
        pr = pkg.prior.Prior()
        pr.add_parameter('a', dist=RANGES[0])
        pr.add_parameter('fixed', dist=3.5)
        pr.add_parameter('b', dist=RANGES[1])
        S.prior = pr
        if kind == 'prior_dict':
            like = DictLike(W, ['a', 'b'], blobs=blobs, vectorized=vec)
            S.pass_dict = True
        else:
            like = st.Likelihood(W, blobs, vec)
            S.pass_dict = False
    S.likelihood = like
    S.n_dim, S.n_live, S.n_batch = 2, 4, nb
    S.vectorized = vec
    S.pool_l = OrderedPool(W, cfg['pool']) if cfg.get('pool') else None
    S.pool_s = None
    S.rng = rng
    S.n_like = 0
    S.explored = False
    S._discard_exploration = False
    S.bounds, S.points, S.log_l = [], [], []
    S.blobs, S.blobs_t = None, None
    bd = cfg.get('blobs_dtype')
    if bd == 'record':
        bd = [('a', float), ('b', float)]
    elif bd == 'float':
        bd = float
    S.blobs_dtype = bd
    for k in ['shell_n', 'shell_n_sample', 'shell_n_sample_exp',
              'shell_end_exp', 'shell_t']:
        setattr(S, k, np.zeros(0, dtype=int))
    for k in ['shell_n_eff', 'shell_log_l_min', 'shell_log_l', 'shell_log_v',
              'log_l_t']:
        setattr(S, k, np.zeros(0, dtype=float))
    S.points_t = np.zeros((0, 2))
    S.n_points_min, S.filepath = 3, None
    ok, _ = call(W, 'C03:add_bound-no-raise', lambda: S.add_bound())
    if not ok:
        return
    for step in (1, 2):
        ok, _ = call(W, 'C03:batch-%d-no-raise' % step,
                     lambda: S.add_samples(-1))
        if not ok:
            return
    n = 2 * nb
    good = len(S.points[0]) == n and len(S.log_l[0]) == n and \
        S.blobs is not None if blobs else len(S.points[0]) == n
    if blobs:
        good = good and len(S.blobs) == 1 and len(S.blobs[0]) == n
    W.require(bool(good), 'C03:lengths', 'after two batches of %d' % nb)
    if not good:
        return
    W.require(W.same(S.n_like, n) if not W.symbolic else S.n_like == n,
              'C03:n_like', '')
    W.require(len(like.calls) == n, 'C03:calls', '%d calls' % len(like.calls))
    ok, post = call(W, 'C03:posterior-no-raise',
                    lambda: S.posterior(return_blobs=bool(blobs),
                                        return_as_dict=False))
    if not ok:
        return
    ppts, plw, pll = post[0], post[1], post[2]
    pbl = post[3] if blobs else None
    W.require(len(ppts) == n and len(pll) == n and
              (pbl is None or len(pbl) == n), 'C03:posterior-lengths', '')
    for j in range(n):
        p = [S.points[0][j][k] for k in range(2)]
        W.require(st.in_cube(W, p), 'C03:point-untouched-in-cube',
                  'row %d (a prior that modifies its argument must not '
                  'reach the stored point)' % j)
        x = ref_transform(kind, p)
        # the likelihood was called on the transform of this very point
        c = like.calls[j]
        W.require(world._and(W.same(c[0], x[0]), W.same(c[1], x[1])),
                  'C03:called-on-own-point', 'row %d' % j)
        check_vals(W, like, x, S.log_l[0][j],
                   None if not blobs else S.blobs[0][j], blobs,
                   'C03:stored-row-faithful', 'row %d' % j)
        # posterior row j is stored row j
        y = [ppts[j][k] for k in range(2)]
        W.require(world._and(W.same(y[0], x[0]), W.same(y[1], x[1])),
                  'C03:posterior-point', 'row %d' % j)
        check_vals(W, like, x, pll[j], None if not blobs else pbl[j], blobs,
                   'C03:posterior-row-faithful', 'row %d' % j)


def check_vals(W, like, x, ll, blob, kind, label, detail):
    inf_here = W.uf('Linf', x, 'bool')
    lv = W.uf('L', x)
    if W.symbolic:
        if st.is_neg_inf(ll):
            W.require(inf_here, label, detail)
        else:
            W.require(world._and(st.neg(W, inf_here), ll == lv), label, detail)
    else:
        W.require(st.is_neg_inf(ll) if inf_here else W.same(ll, lv),
                  label, detail)
    if kind is None:
        return
    if kind == 'scalar':
        W.require(W.same(blob, like.blob(x, 0)), label + '-blob', detail)
    elif kind == 'mixed':
        try:
            b0, b1 = blob[0], blob[1]
            n_ok = len(blob) == 2
        except Exception:
            b0 = b1 = None
            n_ok = False
        W.require(n_ok, label + '-blob-shape', detail)
        if n_ok:
            W.require(world._and(W.same(b0, W.uf('BlI', x, 'int')),
                                 W.same(b1, like.blob(x, 1))),
                      label + '-blob', detail)
    else:
        try:
            b0, b1 = blob[0], blob[1]
            n_ok = len(blob) == 2
        except Exception:
            b0 = b1 = None
            n_ok = False
        W.require(n_ok, label + '-blob-shape', detail)
        if n_ok:
            W.require(world._and(W.same(b0, like.blob(x, 0)),
                                 W.same(b1, like.blob(x, 1))),
                      label + '-blob', detail)
