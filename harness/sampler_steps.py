"""One-step inductive harnesses on the real Sampler methods, from an arbitrary
invariant state: add_samples (sampling phase and exploration with transfer
candidates), add_bound, end of exploration."""
from vlib import world
from vlib.engine import PathAbort, BeyondBound, NotModelled
from vlib.stubs import StubNautilusBound
from . import sampler_state as st

INF = float('inf')


def call(W, label, fn, expected=()):
    """Run code under analysis; an escaping exception on a feasible path is
    a candidate violation (label ...:no-raise)."""
    try:
        return True, fn()
    except expected as e:
        return False, e
    except (PathAbort, BeyondBound, NotModelled, world.ReplayMismatch):
        raise
    except Exception as e:
        import traceback
        tb = traceback.extract_tb(e.__traceback__)
        site = ''
        for fr in reversed(tb):
            if '/nautilus/' in fr.filename:
                site = '%s:%d' % (fr.filename.split('/nautilus/')[-1],
                                  fr.lineno)
                break
        W.fail(label, '%s: %s @ %s' % (type(e).__name__, e, site))
        return False, e


def snapshot(S):
    """cells of the stored arrays before the step (lists of scalars)."""
    snap = dict(points=[st.rows_of(p) for p in S.points],
                log_l=[[x for x in ll] for ll in S.log_l],
                blobs=None if S.blobs is None else
                [[x for x in b] for b in S.blobs],
                points_t=st.rows_of(S.points_t),
                shell_t=[x for x in S.shell_t],
                log_l_t=[x for x in S.log_l_t],
                ns=[x for x in S.shell_n_sample],
                n_like=S.n_like, bounds=list(S.bounds))
    return snap


def row_key(W, p, ll, bl):
    return (tuple(p), ll, bl)


def same_row(W, a, b):
    """syntactic/term identity of two rows (point, log_l, blob)."""
    pa, la, ba = a
    pb, lb, bb = b
    if len(pa) != len(pb):
        return False
    for x, y in zip(pa, pb):
        if not ident(W, x, y):
            return False
    return ident(W, la, lb) and ident(W, ba, bb)


def ident(W, x, y):
    if x is None or y is None:
        return x is None and y is None
    if W.symbolic:
        from vlib.engine import SV
        import z3
        if isinstance(x, SV) and isinstance(y, SV):
            return z3.eq(z3.simplify(x.t), z3.simplify(y.t))
        if isinstance(x, SV) or isinstance(y, SV):
            return False
    if x != x and y != y:
        return True
    return x == y


def require_same(W, x, y, label, detail=''):
    """two scalars must be equal: identical terms are accepted at once,
    otherwise the solver must prove them equal (so that a counterexample
    makes them differ in the replay); numeric tolerance in the replay."""
    if isinstance(x, (tuple, str)) or isinstance(y, (tuple, str)) or \
            x is None or y is None:
        return W.require(x == y, label, detail)
    if W.symbolic:
        if ident(W, x, y):
            W.ok(label)
            return True
        return W.require(world.scalar_eq(x, y), label, detail)
    return W.require(W.same(x, y), label, detail)


def stored_rows(W, S, include_unused_transfer=True):
    rows = []
    for i in range(len(S.points)):
        pts = st.rows_of(S.points[i])
        for j, p in enumerate(pts):
            rows.append((p, S.log_l[i][j],
                         None if S.blobs is None else S.blobs[i][j]))
    if include_unused_transfer and not S.explored:
        for k, q in enumerate(st.rows_of(S.points_t)):
            if W.concrete_int(S.shell_t[k]) >= 0:
                rows.append((q, S.log_l_t[k],
                             None if S.blobs_t is None else S.blobs_t[k]))
    return rows


def check_once_each(W, pre_rows, new_points, S, label):
    """post rows = pre rows (each once) + rows of the newly evaluated points
    (each once): matched by term identity of the point coordinates."""
    post = stored_rows(W, S)
    pool = [p for (p, _, _) in pre_rows] + [list(p) for p in new_points]
    used = [False] * len(pool)
    ok = True
    for (p, ll, bl) in post:
        hit = None
        for k, q in enumerate(pool):
            if not used[k] and len(q) == len(p) and \
                    all(ident(W, x, y) for x, y in zip(p, q)):
                hit = k
                break
        if hit is None:
            ok = False
            break
        used[hit] = True
    ok = ok and all(used)
    W.require(ok, label, 'stored rows are not exactly the previous rows plus '
              'the newly evaluated batch, each once')


# ---------------------------------------------------------------------------
# add_samples
# ---------------------------------------------------------------------------

def add_samples(W, cfg):
    S, like = st.build(W, cfg)
    props = cfg.get('props', ['C01', 'C02', 'C03'])
    shell = cfg['shell']
    pre = snapshot(S)
    pre_rows = stored_rows(W, S)
    ns_pre = [x for x in S.shell_n_sample]
    n_like_pre = S.n_like
    counter = install_counters(S, cfg.get('unroll', 2))
    if cfg.get('fail_call') is not None:
        # the likelihood raises inside this batch and the exception reaches
        # the caller: the stored columns must still belong together (the
        # sampler object can be used further, e.g. posterior())
        like.fail_at = len(like.calls) + cfg['fail_call']
        try:
            S.add_samples(shell)
        except st.InjectedFault:
            pass
        except Exception as e:
            W.fail('C03:failed-batch-propagates', '%s: %s' % (
                type(e).__name__, e))
            return
        like.fail_at = None
        if st.check_alignment(W, S, tag='-after-failed-batch'):
            st.check_c03_rows(W, S, like, tag='-after-failed-batch')
        return
    ok, ret = call(W, props[0] + ':add_samples-no-raise',
                   lambda: S.add_samples(shell))
    if not ok:
        return
    B = len(S.bounds)
    tgt = shell % B
    if not st.check_alignment(W, S):
        return
    if 'C01' in props:
        st.check_c01(W, S)
    if 'C03' in props:
        st.check_c03_rows(W, S, like)
        check_once_each(W, pre_rows, like.calls, S, 'C03:rows-once')
        # the batch went to the target shell, in proposal order
        nb = len(like.calls)
        tail = st.rows_of(S.points[tgt])[-nb:] if nb else []
        W.require(len(tail) == nb and all(
            all(ident(W, x, y) for x, y in zip(p, q))
            for p, q in zip(tail, like.calls)), 'C03:batch-appended-in-order',
            'evaluated batch is not the tail of the target shell')
    if 'C02' in props:
        check_c02_step(W, S, pre, ns_pre, tgt, like, counter)
    if 'C10' in props:
        W.require(S.n_like == n_like_pre + len(like.calls),
                  'C10:count-equals-calls', 'n_like vs calls')
        W.require(len(like.calls) == S.n_batch, 'C10:one-batch',
                  '%d evaluations for n_batch=%d' % (len(like.calls),
                                                     S.n_batch))
        for p in like.calls:
            W.require(st.in_cube(W, p), 'C10:evaluated-in-cube', str(p))
    if 'C12' in props and S.explored:
        check_append_only(W, S, pre)
        # after exploration a step adds exactly the newly evaluated batch
        # (exploration-time transfer candidates never enter a shell)
        grown = sum(len(S.points[i]) - len(pre['points'][i])
                    for i in range(len(pre['points'])))
        W.require(grown == len(like.calls),
                  'C12:only-new-samples-after-exploration',
                  '%d rows added, %d points evaluated' % (grown,
                                                          len(like.calls)))


def check_append_only(W, S, pre):
    ok = len(S.bounds) == len(pre['bounds']) and all(
        a is b for a, b in zip(S.bounds, pre['bounds']))
    W.require(ok, 'C12:bounds-frozen', 'list of bounds changed')
    for i in range(len(pre['points'])):
        pts = st.rows_of(S.points[i])
        n0 = len(pre['points'][i])
        good = len(pts) >= n0 and len(pts) >= 1
        if good:
            for j in range(n0):
                good = good and all(ident(W, x, y) for x, y in
                                    zip(pts[j], pre['points'][i][j]))
                good = good and ident(W, S.log_l[i][j], pre['log_l'][i][j])
                if S.blobs is not None:
                    good = good and ident(W, S.blobs[i][j],
                                          pre['blobs'][i][j])
        W.require(good, 'C12:append-only', 'shell %d prefix changed' % i)


def install_counters(S, unroll=2):
    """count the proposals requested from each bound during the step and
    cut paths that need more than `unroll` proposal rounds."""
    counter = {}

    def wrap(i, b):
        orig = b.sample

        def sample(n_points=100, *a, **k):
            if k.get('return_points', True):
                counter['rounds'] = counter.get('rounds', 0) + 1
                if counter['rounds'] > unroll:
                    raise BeyondBound('more than %d proposal rounds' % unroll)
                counter[i] = counter.get(i, 0) + int(n_points)
            return orig(n_points, *a, **k)
        b.sample = sample
    for i, b in enumerate(S.bounds):
        wrap(i, b)
    return counter


def check_c02_step(W, S, pre, ns_pre, tgt, like, counter):
    """bookkeeping after a step: sample counts, proposal counts, and the
    statistics are those update_shell_info defines for the stored arrays."""
    np = W.np
    B = len(S.bounds)
    proposed = counter.get(tgt, 0)
    for i in range(B):
        start = 0
        nse = 0
        if S._discard_exploration and S.explored:
            start = W.concrete_int(S.shell_end_exp[i])
            nse = S.shell_n_sample_exp[i]
        n_i = len(S.log_l[i]) - start
        W.require(S.shell_n[i] == n_i, 'C02:shell_n', 'shell %d' % i)
        if i == tgt:
            W.require(S.shell_n_sample[i] == ns_pre[i] + proposed,
                      'C02:proposal-count', 'shell %d' % i)
        else:
            W.require(S.shell_n_sample[i] == ns_pre[i],
                      'C02:proposal-count-other', 'shell %d' % i)
        W.require(S.shell_n_sample[i] - nse >= n_i,
                  'C02:fraction-at-most-one', 'shell %d' % i)
    check_stats_fresh(W, S)


def check_stats_fresh(W, S, label='C02:stats-current', shells=None):
    """Statistics equal what the real update_shell_info recomputes from the
    stored arrays now (term identity; numeric tolerance in replay)."""
    B = len(S.bounds)
    cur = [(S.shell_n[i], S.shell_log_v[i], S.shell_log_l[i],
            S.shell_n_eff[i]) for i in range(B)]
    for i in (range(B) if shells is None else shells):
        S.update_shell_info(i)
        new = (S.shell_n[i], S.shell_log_v[i], S.shell_log_l[i],
               S.shell_n_eff[i])
        for a, b, nm in zip(cur[i], new, ['n', 'log_v', 'log_l', 'n_eff']):
            W.require(W.same(a, b), label, 'shell %d %s' % (i, nm))


# ---------------------------------------------------------------------------
# add_bound
# ---------------------------------------------------------------------------

def add_bound(W, cfg):
    S, like = st.build(W, cfg)
    props = cfg.get('props', ['C01', 'C02', 'C03'])
    pre = snapshot(S)
    pre_stored = stored_rows(W, S, include_unused_transfer=False)
    B0 = len(S.bounds)
    ok, ret = call(W, props[0] + ':add_bound-no-raise', lambda: S.add_bound())
    if not ok:
        return
    B = len(S.bounds)
    W.require(B == B0 + (1 if ret else 0), props[0] + ':add_bound-return',
              'returned %r with %d -> %d bounds' % (ret, B0, B))
    if not st.check_alignment(W, S):
        return
    if 'C01' in props:
        st.check_c01(W, S)
    if 'C03' in props:
        st.check_c03_rows(W, S, like)
        if ret or B0 == 0:
            # nothing evaluated; rows only move between shells and the
            # transfer set (previous unused candidates are dropped)
            post = stored_rows(W, S)
            check_same_multiset(W, pre_stored, post, 'C03:rows-once')
        W.require(len(like.calls) == 0, 'C03:no-evaluation-in-add_bound', '')
    if 'C02' in props:
        for i in range(B):
            W.require(S.shell_n[i] == len(S.log_l[i]), 'C02:shell_n',
                      'shell %d' % i)
            if i < B0:
                W.require(W.same(S.shell_n_sample[i], pre['ns'][i]),
                          'C02:proposal-count-other', 'shell %d' % i)
        if ret and B > B0:
            W.require(W.same(S.shell_n_sample[B - 1], 0),
                      'C02:proposal-count', 'new shell')
        check_stats_fresh(W, S, shells=[i for i in range(B)
                                        if len(S.log_l[i]) > 0 or i < B0])
    if 'C12' in props:
        W.require(not S.explored, 'C12:add_bound-only-in-exploration', '')


def check_same_multiset(W, rows_a, rows_b, label):
    used = [False] * len(rows_b)
    ok = len(rows_a) == len(rows_b)
    if ok:
        for ra in rows_a:
            hit = None
            for k, rb in enumerate(rows_b):
                if not used[k] and same_row(W, ra, rb):
                    hit = k
                    break
            if hit is None:
                ok = False
                break
            used[hit] = True
    W.require(ok, label, 'rows before and after differ as multisets '
              '(%d vs %d rows)' % (len(rows_a), len(rows_b)))
