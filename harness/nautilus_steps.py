"""NautilusBound / NeuralBound / Mixture.compute harnesses (C07, C08): real
classes composed of contract stubs."""
import copy

from vlib import world
from vlib.engine import BeyondBound
from vlib.stubs import member_class
from vlib.world import StubRNG
from .sampler_steps import call, ident
from .union_steps import build_union, world_or
from .bound_io import sym_arr, make_shift


class StubNeural(object):
    """neural bound with an uninterpreted contains (inside its own outer
    ellipsoid by C07's neural clause, proved on the real class)"""

    def __init__(self, W, k, d):
        self.W, self.k, self.n_dim = W, k, d
        self.emulator = None

    def _c1(self, row):
        return self.W.uf('neural%d' % self.k,
                         [row[i] for i in range(self.n_dim)], 'bool')

    def contains(self, points):
        np = self.W.np
        points = np.atleast_2d(points)
        out = [self._c1(points[j]) for j in range(len(points))]
        return np.array(out, dtype=bool) if out else np.zeros(0, dtype=bool)

    def __deepcopy__(self, memo):
        return self


class CopyPool(object):
    """pool.map contract: order preserving; every job runs on its own copy
    of the function and its bound object (process isolation)."""

    def __init__(self, size, unroll=None):
        self.size = size
        self.jobs = 0
        self.unroll = unroll

    def map(self, f, xs):
        out = []
        for x in xs:
            self.jobs += 1
            if self.unroll is not None and hasattr(x, 'multinomial'):
                limit(x, self.unroll)
            out.append(copy.deepcopy(f)(x))
        return out


def build_nautilus(W, cfg):
    np = W.np
    W.opts = dict(members_in_cube=cfg.get('members_in_cube', False),
                  open_uniform=cfg.get('open_uniform', False))
    pkg = W.pkg
    d = cfg.get('d', 1)
    ucfg = dict(d=d, npm=d + 1, sizes=cfg.get('sizes', [d + 1]), unit=True,
                cache=cfg.get('outer_cache', 0), sampled=True)
    U, M = build_union(W, ucfg)
    b = object.__new__(pkg.nautilus.NautilusBound)
    b.n_dim = d
    b.outer_bound = U
    b.rng = U.rng
    b.shift = make_shift(W, cfg['periodic']) if cfg.get('periodic') else None
    b.neural_bounds = [StubNeural(W, k, d)
                       for k in range(cfg.get('n_neural', 1))]
    rows = []
    for j in range(cfg.get('cache', 0)):
        r = [W.real('nbc_%d_%d' % (j, k)) for k in range(d)]
        rows.append(r)
        for x in r:
            W.assume(x >= 0)
            W.assume(x < 1)
        inside = False
        for m in U.bounds:
            inside = world_or(W, inside, m._contains1(r))
        W.assume(inside)
        inn = False
        for nb in b.neural_bounds:
            inn = world_or(W, inn, nb._c1(r))
        W.assume(inn)
    b.points = np.array(rows, dtype=float) if rows else np.zeros((0, d))
    b.n_sample = W.int('nb_ns')
    b.n_reject = W.int('nb_nr')
    W.assume(b.n_sample >= 1)
    W.assume(b.n_reject >= 0)
    W.assume(b.n_reject < b.n_sample)
    return b, U


def limit(rng, unroll):
    orig = rng.multinomial
    c = {'n': 0}

    def multinomial(n, p):
        c['n'] += 1
        if c['n'] > unroll:
            raise BeyondBound('more than %d proposal rounds' % unroll)
        return orig(n, p)
    rng.multinomial = multinomial
    return c


def nb_sample(W, cfg):
    np = W.np
    b, U = build_nautilus(W, cfg)
    d = b.n_dim
    n = cfg.get('n', 1)
    limit(U.rng, cfg.get('unroll', 4))
    pool = CopyPool(cfg['pool'], cfg.get('unroll', 4)) if cfg.get('pool') \
        else None
    pre = dict(ns=b.n_sample, nr=b.n_reject, ons=U.n_sample, onr=U.n_reject,
               cache=len(b.points))
    # count the rows the outer bound hands to the network filter
    handed = {'n': 0, 'calls': 0}
    orig_outer = U.sample

    def outer_sample(k=100):
        handed['calls'] += 1
        handed['n'] += int(k)
        return orig_outer(k)
    if pool is None:
        # (workers own deep copies of the bound; a wrapper installed on the
        # parent's union would be shared with them)
        U.sample = outer_sample
    ok, out = call(W, 'C07:nautilus-sample-no-raise',
                   lambda: b.sample(n, pool=pool))
    if pool is None:
        U.sample = orig_outer
    if not ok:
        return
    W.require(tuple(out.shape) == (n, d), 'C07:sample-shape', str(out.shape))
    for j in range(len(out)):
        for k in range(d):
            W.require(world._and(W.leq(0, out[j][k]), out[j][k] < 1),
                      'C07:nautilus-sample-in-unit-cube', 'row %d' % j)
        okc, c = call(W, 'C07:nautilus-contains-no-raise',
                      lambda: b.contains(out[j:j + 1]))
        if okc:
            W.require(c[0], 'C07:nautilus-sample-is-contained', 'row %d' % j)
    # contains => outer_bound.contains(shift(x))
    X = sym_arr(W, 'X', (1, d))
    okc, c = call(W, 'C07:nautilus-contains-no-raise', lambda: b.contains(X))
    if okc and W.symbolic:
        import z3
        from vlib.engine import SV, truth
        Xs = b.shift.transform(X) if b.shift is not None else X
        oc = U.contains(Xs)
        W.require(SV(z3.Implies(truth(c[0]), truth(oc[0]))),
                  'C07:nautilus-contained-in-outer-bound', '')
    # counters (C08), serial branch
    if pool is None:
        accepted = len(b.points) + n - pre['cache']
        W.require(b.n_sample == pre['ns'] + handed['n'],
                  'C08:nautilus-proposal-counter',
                  '%d rows handed to the network filter' % handed['n'])
        W.require(b.n_reject == pre['nr'] + handed['n'] - accepted,
                  'C08:nautilus-rejection-counter', '')
    okv, lv = call(W, 'C08:nautilus-log_v-no-raise', lambda: b.log_v)
    okw, olv = call(W, 'C08:union-log_v-no-raise', lambda: U.log_v)
    if okv and okw:
        A = W.alg(log_atoms=('lv_',))
        ns, nr = A.T(b.n_sample), A.T(b.n_reject)
        W.require_alg(A, A.eq(A.E(lv) * ns, A.E(olv) * (ns - nr)),
                      'C08:nautilus-volume-is-outer-times-acceptance', '')


def nb_pool_merge(W, cfg):
    """pool branch: counters of both levels are the sums over the workers and
    the cache is the concatenation in worker order (C08)"""
    np = W.np
    b, U = build_nautilus(W, dict(cfg, cache=0))
    d = b.n_dim
    limit(U.rng, 99)
    size = cfg.get('pool', 2)
    results = []

    class RecPool(CopyPool):
        def map(self, f, xs):
            out = []
            for x in xs:
                w = copy.deepcopy(f)
                limit(x, cfg.get('unroll', 4))
                r = w(x)
                out.append(r)
                results.append(dict(ns=r.n_sample, nr=r.n_reject,
                                    ons=r.outer_bound.n_sample,
                                    onr=r.outer_bound.n_reject,
                                    pts=[[r.points[j][k] for k in range(d)]
                                         for j in range(len(r.points))]))
            return out
    pool = RecPool(size)
    pre = dict(ns=b.n_sample, nr=b.n_reject, ons=U.n_sample, onr=U.n_reject)
    ok, out = call(W, 'C08:nautilus-pool-sample-no-raise',
                   lambda: b.sample(1, pool=pool))
    if not ok:
        return
    W.require(len(results) == size, 'C08:one-job-per-worker',
              '%d jobs' % len(results))
    tot = dict(ns=0, nr=0, ons=0, onr=0)
    rows = []
    for r in results:
        for k in tot:
            tot[k] = tot[k] + r[k]
        rows.extend(r['pts'])
    W.require(b.n_sample == pre['ns'] + tot['ns'], 'C08:pool-merge-n_sample',
              '')
    W.require(b.n_reject == pre['nr'] + tot['nr'], 'C08:pool-merge-n_reject',
              '')
    W.require(U.n_sample == pre['ons'] + tot['ons'],
              'C08:pool-merge-outer-n_sample', '')
    W.require(U.n_reject == pre['onr'] + tot['onr'],
              'C08:pool-merge-outer-n_reject', '')
    got = [[out[j][k] for k in range(d)] for j in range(len(out))] + \
        [[b.points[j][k] for k in range(d)] for j in range(len(b.points))]
    good = len(got) == len(rows)
    if good and b.shift is None:
        for p, q in zip(got, rows):
            good = good and all(ident(W, x, y) if W.symbolic
                                else W.same(x, y) for x, y in zip(p, q))
    W.require(good, 'C08:pool-merge-points-in-worker-order',
              '%d rows from %d workers' % (len(got), len(results)))
    if good and b.shift is not None:
        # worker caches are in the shifted frame: returned rows are the
        # workers' rows shifted back once, kept rows are the workers' rows
        for j, (p, q) in enumerate(zip(got, rows)):
            if j < len(out):
                q = b.shift.transform(np.array([q], dtype=float),
                                      inverse=True)[0]
                q = [q[k] for k in range(d)]
            for k in range(d):
                W.require(W.same(p[k], q[k]),
                          'C08:pool-merge-points-in-worker-order',
                          'row %d coordinate %d (phase shift applied once '
                          'on exit)' % (j, k))
    # workers use distinct generator streams derived from the bound's rng
    W.require(W.unseeded_draws == 0,
                  'C11:no-draw-from-unseeded-generator', '')


def neural_contains(W, cfg):
    """a neural bound never contains a point outside its outer ellipsoid"""
    from .bound_io import make_mlp
    np = W.np
    pkg = W.pkg
    d = cfg.get('d', 2)
    M = member_class(pkg)
    M.new_path()
    nb = object.__new__(pkg.neural_bound.NeuralBound)
    nb.n_dim = d
    nb.outer_bound = M(d)
    n_net = cfg.get('n_net', 1)
    if n_net:
        em = object.__new__(pkg.neural.NeuralNetworkEmulator)
        em.mean = sym_arr(W, 'mean', (d,))
        em.scale = sym_arr(W, 'scale', (d,))
        em.neural_networks = [make_mlp(W, i, d, 'n%d' % i)
                              for i in range(n_net)]
        nb.emulator = em
        nb.score_predict_min = W.real('spm')
    else:
        nb.emulator = None
        nb.score_predict_min = 0
    X = sym_arr(W, 'X', (cfg.get('n', 2), d))
    ok, c = call(W, 'C07:neural-contains-no-raise', lambda: nb.contains(X))
    if not ok:
        return
    W.require(len(c) == len(X), 'C07:neural-contains-shape', '')
    for j in range(len(X)):
        oc = nb.outer_bound._contains1(X[j])
        if W.symbolic:
            import z3
            from vlib.engine import SV, truth
            W.require(SV(z3.Implies(truth(c[j]), truth(oc))),
                      'C07:neural-inside-outer-ellipsoid', 'row %d' % j)
        else:
            W.require((not c[j]) or oc, 'C07:neural-inside-outer-ellipsoid',
                      'row %d' % j)
    # X itself is not modified
    ok2, c1 = call(W, 'C07:neural-contains-no-raise',
                   lambda: nb.contains(X[0]))
    if ok2:
        W.require(len(c1) == 1, 'C07:neural-contains-single-point', '')


def mixture_compute(W, cfg):
    """construction points inside the unit cube are contained in
    UnitCubeEllipsoidMixture.compute(points); the ellipsoid part is built
    from exactly the columns it is evaluated on"""
    np = W.np
    pkg = W.pkg
    basic = pkg.basic
    d, n = cfg['d'], cfg['n']
    M = member_class(pkg)
    M.new_path()
    pts = sym_arr(W, 'cp', (n, d))
    for j in range(n):
        for k in range(d):
            W.assume(pts[j][k] >= 0)
            W.assume(pts[j][k] < 1)
    rng = StubRNG(stream=1, draws=0)
    real_compute = basic.Ellipsoid.__dict__['compute']
    basic.Ellipsoid.compute = classmethod(
        lambda cls, p, enlarge_per_dim=1.1, rng=None: M.compute(
            p, enlarge_per_dim=enlarge_per_dim, rng=rng))
    try:
        ok, m = call(W, 'C07:mixture-compute-no-raise',
                     lambda: basic.UnitCubeEllipsoidMixture.compute(
                         pts, enlarge_per_dim=1.1, rng=rng))
    finally:
        basic.Ellipsoid.compute = real_compute
    if not ok:
        return
    W.require(W.unseeded_draws == 0, 'C11:no-draw-from-unseeded-generator',
              '%d draws from generators created without a seed' %
              W.unseeded_draws)
    for part in (m.cube, m.ellipsoid):
        if part is not None:
            W.require(part.rng is rng, 'C11:bounds-share-the-given-generator',
                      type(part).__name__)
    W.require(len(m.dim_cube) == d, 'C07:mixture-dim_cube-shape', '')
    n_cube = sum(1 for x in m.dim_cube if x)
    W.require((m.cube is None) == (n_cube == 0) and
              (m.ellipsoid is None) == (n_cube == d),
              'C07:mixture-parts-consistent', str(list(m.dim_cube)))
    if m.ellipsoid is not None:
        W.require(m.ellipsoid.n_dim == d - n_cube,
                  'C07:mixture-ellipsoid-dimension', '')
    ok, c = call(W, 'C07:mixture-contains-no-raise', lambda: m.contains(pts))
    if ok:
        for j in range(n):
            W.require(c[j], 'C07:mixture-encloses-construction-points',
                      'point %d, dim_cube %s' % (j, [bool(x) for x in
                                                    m.dim_cube]))


def union_compute_rng(W, cfg):
    """Union.compute hands the given generator to the cube and to every
    member, and creates none of its own (C11)"""
    np = W.np
    pkg = W.pkg
    d, n = cfg['d'], cfg['n']
    M = member_class(pkg)
    M.new_path()
    pts = sym_arr(W, 'cp', (n, d))
    rng = StubRNG(stream=1, draws=0)
    ok, U = call(W, 'C11:union-compute-no-raise',
                 lambda: pkg.union.Union.compute(
                     pts, n_points_min=d + 1, unit=cfg.get('unit', True),
                     bound_class=M, rng=rng))
    if not ok:
        return
    W.require(W.unseeded_draws == 0, 'C11:no-draw-from-unseeded-generator',
              '%d draws from generators created without a seed' %
              W.unseeded_draws)
    # the initial record is well-formed (C13)
    from .union_steps import check_wellformed
    W.require(len(U.bounds) == 1 and len(U.points_bounds) == 1 and
              len(U.log_v_all) == 1 and len(U.block) == 1,
              'C13:one-record-per-ellipsoid-after-compute', '')
    W.require(bool(U.block[0]) == (n < 2 * U.n_points_min),
              'C13:initial-may-split-flag',
              '%d points, n_points_min %d, blocked %r' % (
                  n, U.n_points_min, bool(U.block[0])))
    W.require(U.rng is rng, 'C11:bounds-share-the-given-generator', 'union')
    if U.cube is not None:
        W.require(U.cube.rng is rng, 'C11:bounds-share-the-given-generator',
                  'cube')
    for b in U.bounds:
        W.require(b.rng is rng, 'C11:bounds-share-the-given-generator',
                  'member')
    if True:
        limit(rng, 6)
        ok, r = call(W, 'C13:split-no-raise', lambda: U.split())
        if ok:
            check_wellformed(W, U, '-after-compute-and-split')
            if r:
                for i in range(len(U.bounds)):
                    W.require(len(U.points_bounds[i]) >= U.n_points_min,
                              'C13:new-ellipsoid-has-minimum-points',
                              'member %d has %d points' % (
                                  i, len(U.points_bounds[i])))
            for b in U.bounds:
                W.require(b.rng is rng,
                          'C11:bounds-share-the-given-generator',
                          'member after split')
            W.require(W.unseeded_draws == 0,
                  'C11:no-draw-from-unseeded-generator', '')
            for rs in getattr(W, 'gmm_random_states', []):
                W.require(rs is not None, 'C11:mixture-fit-is-seeded',
                          'GaussianMixture(random_state=None)')


def nb_contains(W, cfg):
    """a nautilus bound contains no point outside the unit cube / its outer
    bound, for ARBITRARY query points (including coordinates equal to 0 or 1)
    with and without a phase shift"""
    np = W.np
    b, U = build_nautilus(W, dict(cfg, cache=0))
    d = b.n_dim
    X = sym_arr(W, 'X', (cfg.get('n', 1), d))
    X0 = [[X[j][k] for k in range(d)] for j in range(len(X))]
    ok, c = call(W, 'C07:nautilus-contains-no-raise', lambda: b.contains(X))
    if not ok:
        return
    for j in range(len(X)):
        for k in range(d):
            W.require(W.same(X[j][k], X0[j][k]), 'C07:contains-input-unmodified',
                      'cell %d,%d' % (j, k))
        if W.symbolic:
            import z3
            from vlib.engine import SV, truth
            cube = True
            for k in range(d):
                if b.shift is not None and k in list(cfg['periodic']):
                    continue    # periodic coordinates are taken modulo one
                cube = world._and(cube, world._and(X0[j][k] >= 0,
                                                   X0[j][k] < 1))
            W.require(SV(z3.Implies(truth(c[j]), truth(cube))),
                      'C07:nautilus-contained-in-unit-cube', 'row %d' % j)
            # and inside the outer bound evaluated at the reference shift
            ref = []
            for k in range(d):
                x = X0[j][k]
                if b.shift is not None and k in list(cfg['periodic']):
                    i = list(cfg['periodic']).index(k)
                    t = x + (0.5 - b.shift.centers[i])
                    x = t - SV(z3.ToReal(z3.ToInt(t.t)))
                ref.append(x)
            inside = False
            for m in U.bounds:
                inside = world_or(W, inside, m._contains1(ref))
            W.require(SV(z3.Implies(truth(c[j]), truth(inside))),
                      'C07:nautilus-contained-in-outer-bound-reference',
                      'row %d' % j)
        else:
            incube = all(0 <= X0[j][k] < 1 for k in range(d)
                         if not (b.shift is not None and
                                 k in list(cfg['periodic'])))
            W.require((not c[j]) or incube,
                      'C07:nautilus-contained-in-unit-cube', 'row %d' % j)


def nb_compute(W, cfg):
    """the real NautilusBound.compute with recording stand-ins for Union and
    NeuralBound: the points every ellipsoid union of the bound is built from
    (its construction points, in the shifted frame) have their largest
    circular gap across the boundary in every periodic coordinate (C16), and
    are exactly the live points log_l >= log_l_min (C07: these are the
    points the outer bound has to enclose)."""
    from .shift import mk_points, largest_gap
    np = W.np
    pkg = W.pkg
    mod = pkg.nautilus
    d, n = cfg['d'], cfg['n']
    periodic = cfg.get('periodic')
    pts, rows = mk_points(W, n, d)
    log_l = [W.real('ll_%d' % j) for j in range(n)]
    lmin = W.real('ll_min')
    live = [log_l[j] >= lmin for j in range(n)]
    some = False
    for c in live:
        some = world_or(W, some, c)
    W.assume(some)
    calls = []

    class _Member(object):
        def contains(self, points):
            return np.ones(len(points), dtype=bool)

    class RecUnion(object):
        def __init__(self, k):
            self.bounds = [_Member()]
            self.log_v = W.real('rec_lv_%d' % k)

        @classmethod
        def compute(cls, points, **kw):
            calls.append(dict(rows=[[points[j][k] for k in range(d)]
                                    for j in range(len(points))],
                              bound_class=kw.get('bound_class')))
            return cls(len(calls))

        def split(self, allow_overlap=True):
            return False

        def trim(self):
            return False

    class RecNeural(object):
        @classmethod
        def compute(cls, *a, **kw):
            return cls()

    old = mod.Union, mod.NeuralBound
    mod.Union, mod.NeuralBound = RecUnion, RecNeural
    try:
        ok, b = call(W, 'C16:nautilus-compute-no-raise',
                     lambda: mod.NautilusBound.compute(
                         pts, np.array(log_l, dtype=float), lmin,
                         W.real('lv_target'), n_networks=0,
                         periodic=None if periodic is None else
                         np.array(periodic, dtype=int),
                         rng=StubRNG(stream=1, draws=0)))
    finally:
        mod.Union, mod.NeuralBound = old
    if not ok:
        return
    W.require(len(calls) == 2, 'C16:two-unions-built', '%d' % len(calls))
    W.require((b.shift is not None) == (periodic is not None),
              'C16:shift-present-iff-periodic', '')
    n_live = sum(1 for c in live if bool(c))
    for ci, rec in enumerate(calls):
        Q = rec['rows']
        W.require(len(Q) == n_live, 'C07:union-built-from-the-live-points',
                  'call %d got %d of %d' % (ci, len(Q), n_live))
        for k in (periodic or []):
            xs = [q[k] for q in Q]
            g = largest_gap(W, xs)
            for j, t in enumerate(xs):
                W.require(world._and(W.leq(g / 2, t), W.leq(t, 1 - g / 2)),
                          'C16:largest-gap-across-boundary-in-the-bound',
                          'union %d coordinate %d point %d' % (ci, k, j))
            for t in xs:
                W.require(world._and(W.leq(0, t), t < 1),
                          'C16:shifted-construction-point-in-unit', '')
