"""CrossHair contracts over the real nautilus.prior (C15, engine B).

Each private function drives the real Prior with symbolic keys (str of
length <= 3 or None) and states the declaration contract as a PEP-316
postcondition.  `crosshair check` searches for a counterexample with z3 and
can confirm the condition over all paths."""
import os
import sys
from typing import Optional

sys.path.insert(0, os.environ.get('NAUTILUS_REPO', '/repo'))
from nautilus.prior import Prior  # noqa: E402


def _well_formed(p: Prior) -> bool:
    return len(p.keys) == len(p.dists) and len(set(p.keys)) == len(p.keys)


def decl_pair(k1: Optional[str], k2: Optional[str],
              link: Optional[str]) -> bool:
    """
    pre: k1 is None or len(k1) <= 3
    pre: k2 is None or len(k2) <= 3
    pre: link is None or len(link) <= 3
    post: __return__
    """
    p = Prior()
    try:
        p.add_parameter(k1)
    except (ValueError, TypeError):
        pass
    keys0 = list(p.keys)
    n_dists0 = len(p.dists)
    try:
        if link is None:
            p.add_parameter(k2)
        else:
            p.add_parameter(k2, dist=link)
        accepted = True
    except (ValueError, TypeError):
        accepted = False
    if not _well_formed(p):
        return False
    if accepted:
        # exactly one new, previously unused key; a link names an old key
        if len(p.keys) != len(keys0) + 1 or p.keys[:-1] != keys0:
            return False
        if link is not None and link not in keys0:
            return False
        return True
    # rejected: the prior is unchanged
    return p.keys == keys0 and len(p.dists) == n_dists0


def decl_generated(k1: Optional[str], k2: Optional[str]) -> bool:
    """
    pre: k1 is None or len(k1) <= 3
    pre: k2 is None or len(k2) <= 3
    post: __return__
    """
    # two explicit/implicit declarations followed by a generated key
    p = Prior()
    for k in (k1, k2):
        try:
            p.add_parameter(k)
        except (ValueError, TypeError):
            pass
    keys0 = list(p.keys)
    try:
        p.add_parameter()
        accepted = True
    except (ValueError, TypeError):
        accepted = False
    if not _well_formed(p):
        return False
    if accepted:
        return len(p.keys) == len(keys0) + 1 and p.keys[:-1] == keys0
    return p.keys == keys0


def decl_bad_type(k1: Optional[str], k2: Optional[str]) -> bool:
    """
    pre: k1 is None or len(k1) <= 3
    pre: k2 is None or len(k2) <= 3
    post: __return__
    """
    # a declaration with a distribution of the wrong type is rejected with
    # TypeError and leaves the prior unchanged
    p = Prior()
    try:
        p.add_parameter(k1)
    except (ValueError, TypeError):
        pass
    keys0 = list(p.keys)
    n0 = len(p.dists)
    try:
        p.add_parameter(k2, dist=[0, 1])
        return False
    except TypeError:
        pass
    except ValueError:
        # only allowed when the (given or generated) key is a duplicate
        key = k2 if k2 is not None else 'x_{}'.format(len(keys0))
        if key not in keys0:
            return False
    return p.keys == keys0 and len(p.dists) == n0
