"""Union-level inductive step harnesses (C13; parts of C07 and C08): the real
Union.split / trim / sample / contains / log_v from an arbitrary well-formed
union record whose members are contract stubs."""
from vlib import world
from vlib.stubs import member_class
from vlib.world import StubRNG
from .sampler_steps import call, ident

INF = float('inf')


def build_union(W, cfg):
    """cfg: d, npm, sizes (points per member), unit, cache (rows in the
    proposal cache), sampled (bool: counters non-zero)."""
    np = W.np
    pkg = W.pkg
    d = cfg.get('d', 1)
    npm = cfg.get('npm', d + 1)
    M = member_class(pkg)
    M.new_path()
    U = object.__new__(pkg.union.Union)
    rng = StubRNG(stream=1, draws=2)
    U.n_dim = d
    U.enlarge_per_dim = 1.1
    U.n_points_min = npm
    U.rng = rng
    unit = cfg.get('unit', True)
    U.cube = pkg.basic.UnitCube.compute(d, rng=rng) if unit else None
    U.points_bounds, U.bounds = [], []
    blocks = []
    for i, n in enumerate(cfg['sizes']):
        rows = [[W.real('pt_%d_%d_%d' % (i, j, k)) for k in range(d)]
                for j in range(n)]
        pts = np.array(rows, dtype=float)
        b = M(d, rng=rng)
        for r in rows:
            W.assume(b._contains1(r))          # members enclose their points
        U.points_bounds.append(pts)
        U.bounds.append(b)
        if n < 2 * npm:
            blocks.append(True)
        else:
            bl = W.bool('block_%d' % i)
            blocks.append(W.concrete_bool(bl))
    U.log_v_all = np.array([b.log_v for b in U.bounds], dtype=float)
    U.block = np.array(blocks, dtype=bool)
    # proposal cache and counters
    cache = []
    for j in range(cfg.get('cache', 0)):
        r = [W.real('cache_%d_%d' % (j, k)) for k in range(d)]
        cache.append(r)
        # cached rows were accepted proposals of this union
        inside = False
        for b in U.bounds:
            inside = world_or(W, inside, b._contains1(r))
        W.assume(inside)
        if unit:
            for x in r:
                W.assume(x >= 0)
                W.assume(x < 1)
    U.points = np.array(cache, dtype=float) if cache else np.zeros((0, d))
    if cfg.get('sampled', cfg.get('cache', 0) > 0):
        U.n_sample = W.int('u_n_sample')
        U.n_reject = W.int('u_n_reject')
        W.assume(U.n_sample >= 1)
        W.assume(U.n_reject >= 0)
        W.assume(U.n_reject < U.n_sample)
    else:
        U.n_sample = 0
        U.n_reject = 0
    return U, M


def world_or(W, a, b):
    if a is True or b is True:
        return True
    if a is False:
        return b
    if b is False:
        return a
    return a | b


def record(W, U):
    return dict(bounds=list(U.bounds),
                points=[[[p[j][k] for k in range(p.shape[1])]
                         for j in range(len(p))] for p in U.points_bounds],
                log_v_all=[x for x in U.log_v_all],
                block=[x for x in U.block],
                cache=[[U.points[j][k] for k in range(U.points.shape[1])]
                       for j in range(len(U.points))],
                n_sample=U.n_sample, n_reject=U.n_reject)


def check_wellformed(W, U, tag=''):
    n = len(U.bounds)
    ok = (len(U.points_bounds) == n and len(U.log_v_all) == n and
          len(U.block) == n)
    W.require(ok, 'C13:one-record-per-ellipsoid' + tag,
              '%d bounds, %d point sets, %d volumes, %d flags' % (
                  n, len(U.points_bounds), len(U.log_v_all), len(U.block)))
    if not ok:
        return False
    for i in range(n):
        W.require(W.same(U.log_v_all[i], U.bounds[i].log_v),
                  'C13:volume-record-current' + tag, 'member %d' % i)
        if len(U.points_bounds[i]) < 2 * U.n_points_min:
            W.require(bool(U.block[i]), 'C13:small-ellipsoid-blocked' + tag,
                      'member %d has %d points' % (i, len(U.points_bounds[i])))
        # members enclose their points (C07, preserved by split)
        for j in range(len(U.points_bounds[i])):
            W.require(U.bounds[i]._contains1(U.points_bounds[i][j]),
                      'C07:member-encloses-its-points' + tag,
                      'member %d point %d' % (i, j))
    return True


def all_rows(rec):
    return [r for pts in rec['points'] for r in pts]


def same_rows_multiset(W, a, b):
    if len(a) != len(b):
        return False
    used = [False] * len(b)
    for r in a:
        hit = None
        for k, q in enumerate(b):
            if not used[k] and all(ident(W, x, y) if W.symbolic
                                   else W.same(x, y) for x, y in zip(r, q)):
                hit = k
                break
        if hit is None:
            return False
        used[hit] = True
    return True


def check_cache_sound(W, U, tag=''):
    """every cached proposal is a point the union contains (C07/C08)"""
    for j in range(len(U.points)):
        ok, c = call(W, 'C07:contains-no-raise',
                     lambda: U.contains(U.points[j]))
        if ok:
            W.require(c, 'C07:cached-proposals-are-contained' + tag,
                      'cache row %d' % j)


def split(W, cfg):
    U, M = build_union(W, cfg)
    pre = record(W, U)
    allow = cfg.get('allow_overlap', True)
    ok, ret = call(W, 'C13:split-no-raise',
                   lambda: U.split(allow_overlap=allow))
    if not ok:
        return
    if not check_wellformed(W, U, '-after-split'):
        return
    post = record(W, U)
    W.require(same_rows_multiset(W, all_rows(pre), all_rows(post)),
              'C13:points-preserved', 'split changed the set of points')
    if ret:
        W.require(len(post['bounds']) == len(pre['bounds']) + 1,
                  'C13:split-replaces-one-by-two', '')
        new = [i for i, b in enumerate(post['bounds'])
               if all(b is not o for o in pre['bounds'])]
        W.require(len(new) == 2, 'C13:split-replaces-one-by-two',
                  '%d new members' % len(new))
        for i in new:
            W.require(len(post['points'][i]) >= U.n_points_min,
                      'C13:new-ellipsoid-has-minimum-points',
                      'member %d has %d points, minimum %d' % (
                          i, len(post['points'][i]), U.n_points_min))
        gone = [o for o in pre['bounds']
                if all(o is not b for b in post['bounds'])]
        if len(new) == 2 and len(gone) == 1:
            A = W.alg(log_atoms=('lv_',))
            W.require_alg(A, A.le(A.E(post['bounds'][new[0]].log_v) +
                                  A.E(post['bounds'][new[1]].log_v),
                                  A.E(gone[0].log_v)),
                          'C13:split-does-not-increase-volume', '')
        W.require(len(U.points) == 0 and W.same(U.n_sample, 0) is not False
                  and W.same(U.n_reject, 0) is not False,
                  'C13:split-resets-sampling', '')
    else:
        W.require(len(post['bounds']) == len(pre['bounds']) and all(
            a is b for a, b in zip(post['bounds'], pre['bounds'])) and
            [len(p) for p in post['points']] == [len(p) for p in pre['points']],
            'C13:refused-split-changes-nothing', '')
    check_cache_sound(W, U, '-after-split')


def trim(W, cfg):
    U, M = build_union(W, cfg)
    pre = record(W, U)
    thr = W.real('trim_threshold')
    W.assume(thr > 1)
    ok, ret = call(W, 'C13:trim-no-raise', lambda: U.trim(threshold=thr))
    if not ok:
        return
    if not check_wellformed(W, U, '-after-trim'):
        return
    post = record(W, U)
    if ret:
        W.require(len(post['bounds']) == len(pre['bounds']) - 1,
                  'C13:trim-drops-one-record', '')
        kept = [i for i, b in enumerate(pre['bounds'])
                if any(b is o for o in post['bounds'])]
        rows_kept = [r for i in kept for r in pre['points'][i]]
        W.require(same_rows_multiset(W, rows_kept, all_rows(post)),
                  'C13:points-are-construction-points-not-trimmed', '')
        W.require(len(U.points) == 0 and W.same(U.n_sample, 0) is not False
                  and W.same(U.n_reject, 0) is not False,
                  'C13:trim-resets-sampling', '')
    else:
        W.require(len(post['bounds']) == len(pre['bounds']) and all(
            a is b for a, b in zip(post['bounds'], pre['bounds'])) and
            same_rows_multiset(W, all_rows(pre), all_rows(post)),
            'C13:refused-trim-changes-nothing', '')
    check_cache_sound(W, U, '-after-trim')


def sample(W, cfg):
    """sample(n): records untouched (C13); returned and cached rows are
    contained and in the cube (C07); proposal density and counters (C08)."""
    U, M = build_union(W, cfg)
    np = W.np
    pre = record(W, U)
    n = cfg.get('n', 1)
    rounds = {'n': 0}
    orig_multi = U.rng.multinomial

    def multinomial(nn, p):
        rounds['n'] += 1
        if rounds['n'] > cfg.get('unroll', 2):
            from vlib.engine import BeyondBound
            raise BeyondBound('more than %d proposal rounds' % cfg.get(
                'unroll', 2))
        rounds.setdefault('p', []).append((nn, p))
        rounds.setdefault('draw', []).append(U.rng.draws)
        return orig_multi(nn, p)
    U.rng.multinomial = multinomial
    cands = []
    orig_shuffle, orig_random = U.rng.shuffle, U.rng.random

    def shuffle(arr):
        orig_shuffle(arr)
        cands.append(dict(rows=[[arr[j][k] for k in range(U.n_dim)]
                                for j in range(len(arr))]))

    def random(size=None):
        d0 = U.rng.draws
        r = orig_random(size)
        if cands and 'u' not in cands[-1]:
            cands[-1]['u'] = [U.rng.value_of(d0, 'u', i)
                              for i in range(int(size))]
        return r
    U.rng.shuffle, U.rng.random = shuffle, random
    ok, out = call(W, 'C13:sample-no-raise', lambda: U.sample(n))
    if not ok:
        return
    post = record(W, U)
    W.require(tuple(out.shape) == (n, U.n_dim), 'C07:sample-shape',
              str(out.shape))
    same = len(post['bounds']) == len(pre['bounds']) and all(
        a is b for a, b in zip(post['bounds'], pre['bounds'])) and all(
        ident(W, x, y) if W.symbolic else W.same(x, y)
        for x, y in zip(post['log_v_all'], pre['log_v_all'])) and \
        [bool(x) for x in post['block']] == [bool(x) for x in pre['block']] \
        and same_rows_multiset(W, all_rows(pre), all_rows(post))
    W.require(same, 'C13:sample-leaves-records-unchanged', '')
    for j in range(len(out)):
        okc, c = call(W, 'C07:contains-no-raise', lambda: U.contains(out[j]))
        if okc:
            W.require(c, 'C07:sample-is-contained', 'row %d' % j)
        if U.cube is not None:
            for k in range(U.n_dim):
                W.require(world._and(out[j][k] >= 0, out[j][k] < 1),
                          'C07:sample-in-unit-cube', 'row %d' % j)
    check_cache_sound(W, U, '-after-sample')
    # acceptance with probability 1/multiplicity, own draw per proposal (C08)
    final = [[out[j][k] for k in range(U.n_dim)] for j in range(len(out))] + \
        post['cache']
    for cd in cands:
        if 'u' not in cd:
            continue
        W.require(len(cd['u']) == len(cd['rows']), 'C08:one-draw-per-proposal',
                  '')
        for i, row in enumerate(cd['rows']):
            acc = any(all(ident(W, x, y) if W.symbolic else W.same(x, y)
                          for x, y in zip(row, f)) for f in final)
            mult = 0
            for b in U.bounds:
                c = b._contains1(row)
                mult = mult + (1 if c is True else 0 if c is False else
                               W.np.array([c]).astype(int)[0]
                               if W.symbolic else int(bool(c)))
            m = W.concrete_int(mult)
            if m < 1:
                continue
            u = cd['u'][i]
            from fractions import Fraction
            thr = Fraction(m - 1, m) if W.symbolic else 1 - 1.0 / m
            if acc:
                W.require(W.leq(thr, u), 'C08:accept-with-probability-1/m',
                          'accepted proposal with multiplicity %d' % m)
            else:
                W.require(W.leq(u, thr), 'C08:accept-with-probability-1/m',
                          'rejected proposal with multiplicity %d' % m)
    # counters (C08): n_sample grows by the block per round, n_reject by
    # block - accepted
    block = rounds.get('p', [])
    n_blocks = len(block)
    tot_prop = 0
    for nn, p in block:
        tot_prop += int(nn)
    accepted = len(post['cache']) + n - len(pre['cache'])
    W.require(U.n_sample == pre['n_sample'] + tot_prop if W.symbolic else
              U.n_sample == pre['n_sample'] + tot_prop,
              'C08:proposal-counter', '')
    W.require(U.n_reject == pre['n_reject'] + tot_prop - accepted,
              'C08:rejection-counter', '%d proposed, %d accepted' % (
                  tot_prop, accepted))
    # proposals per member proportional to volume (C08)
    if block:
        A = W.alg(log_atoms=('lv_',))
        tot = None
        for b in U.bounds:
            e = A.E(b.log_v)
            tot = e if tot is None else tot + e
        for nn, p in block[:1]:
            for i, b in enumerate(U.bounds):
                W.require_alg(A, A.eq(A.T(p[i]) * tot, A.E(b.log_v)),
                              'C08:proposals-proportional-to-volume',
                              'member %d' % i)
    # log_v = sum of member volumes x acceptance fraction (C08)
    okv, lv = call(W, 'C08:log_v-no-raise', lambda: U.log_v)
    if okv and block:
        A = W.alg(log_atoms=('lv_',))
        tot = None
        for b in U.bounds:
            e = A.E(b.log_v)
            tot = e if tot is None else tot + e
        ns, nr = A.T(U.n_sample), A.T(U.n_reject)
        W.require_alg(A, A.eq(A.E(lv) * ns, tot * (ns - nr)),
                      'C08:volume-is-sum-times-acceptance', '')
