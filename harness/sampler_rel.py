"""C11: relational checks.  The same step is executed twice from the same
symbolic state and the same environment (generator stream, proposal points,
clock, likelihood), differing only in a setting that must be invisible; the
two post-states and returned values must be equal as terms."""
import contextlib
import io
import sys

from vlib import world, symh5
from vlib.stubs import StubNautilusBound
from . import sampler_state as st
from .sampler_steps import call, ident, install_counters
from .sampler_eval import OrderedPool
from .sampler_file import (fields, ckpt_path, cleanup, setup_run_args,
                           limit_iterations)


def quiet():
    return contextlib.redirect_stdout(io.StringIO())


def accessors(W, S):
    """every read-only accessor; results are ignored"""
    out = []
    with quiet():
        for name in ['log_z', 'n_eff', 'eta', 'f_live']:
            out.append(call(W, 'C11:%s-no-raise' % name,
                            lambda: getattr(S, name)))
        # log_v_live is the live-set volume of the exploration; in the
        # discard view of an explored sampler it is not defined (it raises
        # IndexError on the pinned tree).  C11 asks that reading it changes
        # nothing, not that it succeeds.
        try:
            out.append((True, S.log_v_live))
        except Exception as e:
            W.note('log_v_live raised %s in this state' % type(e).__name__)
        out.append(call(W, 'C11:posterior-no-raise', lambda: S.posterior()))
        out.append(call(W, 'C11:occupation-no-raise',
                        lambda: S.shell_bound_occupation(fractional=False)))
        if len(S.points) and len(S.points[0]):
            out.append(call(W, 'C11:association-no-raise',
                            lambda: S.shell_association(S.points[0])))
        import warnings
        with warnings.catch_warnings():
            warnings.simplefilter('ignore')
            out.append(call(W, 'C11:evidence-no-raise', lambda: S.evidence()))
            out.append(call(W, 'C11:ess-no-raise',
                            lambda: S.effective_sample_size()))
            out.append(call(W, 'C11:ase-no-raise',
                            lambda: S.asymptotic_sampling_efficiency()))
        out.append(call(W, 'C11:print_status-no-raise',
                        lambda: S.print_status('Testing')))
    return out


def do_op(W, cfg, S, variant_on):
    op = cfg['op']
    verbose = variant_on and cfg['variant'] == 'verbose'
    if op == 'add_samples':
        with quiet():
            return call(W, 'C11:add_samples-no-raise',
                        lambda: S.add_samples(cfg['shell'], verbose=verbose))
    if op == 'add_bound':
        with quiet():
            return call(W, 'C11:add_bound-no-raise',
                        lambda: S.add_bound(verbose=verbose))
    if op == 'run':
        args = setup_run_args(W, cfg, 1)
        args['verbose'] = verbose
        iters, orig = limit_iterations(S, 1)
        with quiet():
            r = call(W, 'C11:run-no-raise', lambda: S.run(**args))
        S.add_samples = orig
        return r
    raise ValueError(op)


def relational(W, cfg):
    variant = cfg['variant']
    path = None
    try:
        # run A: reference
        SA, likeA = st.build(W, cfg)
        StubNautilusBound.next_index = len(SA.bounds)
        install_counters(SA, unroll=cfg.get('unroll', 2) * 2)
        okA, retA = do_op(W, cfg, SA, False)
        nextA = StubNautilusBound.next_index
        fa = fields(W, SA) if okA else None
        # run B: same state, same environment, one invisible difference
        W.rewind()
        W.thresholds = []
        if hasattr(W, 'fresh_n'):
            pass
        cfgB = dict(cfg)
        if variant == 'vectorized':
            cfgB['vectorized'] = True
        SB, likeB = st.build(W, cfgB)
        StubNautilusBound.next_index = len(SB.bounds)
        if variant == 'pool':
            SB.pool_l = OrderedPool(W, cfg.get('pool_size', 2))
        if variant == 'file':
            path = ckpt_path(W)
            SB.filepath = path
            if len(SB.bounds) > 0:
                SB.write(path, overwrite=True)
        if variant == 'accessors':
            accessors(W, SB)
        install_counters(SB, unroll=cfg.get('unroll', 2) * 2)
        okB, retB = do_op(W, cfgB, SB, True)
        W.require(okA == okB, 'C11:same-outcome', 'one run raised')
        if not (okA and okB):
            return
        fb = fields(W, SB)
        if variant == 'verbose' or variant == 'accessors':
            pass
        good = [n for n, _ in fa] == [n for n, _ in fb]
        W.require(good, 'C11:%s-invisible' % variant, 'different structure')
        if good:
            from .sampler_steps import require_same
            for (n, x), (_, y) in zip(fa, fb):
                if isinstance(x, bool) or isinstance(y, bool):
                    W.require(x == y, 'C11:%s-invisible' % variant, n)
                else:
                    require_same(W, x, y, 'C11:%s-invisible' % variant, n)
        # returned values
        if isinstance(retA, bool) or isinstance(retB, bool) or W.symbolic:
            same_ret = ident(W, retA, retB) if W.symbolic else retA == retB
        else:
            same_ret = W.same(retA, retB)
        W.require(bool(same_ret), 'C11:%s-invisible' % variant,
                  'returned value')
        W.require(len(likeA.calls) == len(likeB.calls) and all(
            all(ident(W, x, y) if W.symbolic else W.same(x, y)
                for x, y in zip(p, q))
            for p, q in zip(likeA.calls, likeB.calls)),
            'C11:%s-invisible' % variant, 'likelihood evaluated on the same '
            'points in the same order')
        # determinism taint
        W.require(W.unseeded_draws == 0,
                  'C11:no-draw-from-unseeded-generator',
                  '%d draws from generators created without a seed' %
                  W.unseeded_draws)
        # bounds are sampled through the sampler pool, never through the
        # likelihood pool (whose size must stay invisible)
        W.require(all(pl is SB.pool_s or pl is SA.pool_s
                      for pl in StubNautilusBound.pools_seen),
                  'C11:bounds-use-the-sampler-pool', '')
        for b in StubNautilusBound.computed:
            W.require(b.rng is SB.rng or b.rng is SA.rng,
                      'C11:bounds-share-the-sampler-generator', '')
    finally:
        if path is not None:
            cleanup(W)
