"""C09: write / read (and update) of every bound class over the journalled
HDF5 model; original and read-back object must behave identically (contains,
log_v, sample stream) as terms."""
import os
import shutil
import tempfile

from vlib import world, symh5
from vlib.world import StubRNG
from .sampler_steps import call, ident


def sym_arr(W, name, shape):
    np = W.np
    n = 1
    for s in shape:
        n *= s
    vals = [W.real('%s_%d' % (name, i)) for i in range(n)]
    return np.array(vals, dtype=float).reshape(shape) if n else \
        np.zeros(shape)


def make_cube(W, d, rng):
    return W.pkg.basic.UnitCube.compute(d, rng=rng)


def make_ell(W, d, rng, name='e'):
    np = W.np
    E = W.pkg.basic.Ellipsoid
    e = object.__new__(E)
    e.n_dim = d
    e.c = sym_arr(W, name + 'c', (d,))
    e.A = sym_arr(W, name + 'A', (d, d))
    e.B = sym_arr(W, name + 'B', (d, d))
    e.B_inv = sym_arr(W, name + 'Bi', (d, d))
    e.rng = rng
    return e


def make_mix(W, pattern, rng, name='m'):
    np = W.np
    M = W.pkg.basic.UnitCubeEllipsoidMixture
    m = object.__new__(M)
    d = len(pattern)
    m.n_dim = d
    m.dim_cube = np.array(list(pattern), dtype=bool)
    nc = sum(1 for p in pattern if p)
    m.cube = make_cube(W, nc, rng) if nc else None
    m.ellipsoid = make_ell(W, d - nc, rng, name + 'e') if nc < d else None
    return m


def make_union(W, cfg, rng, name='u'):
    np = W.np
    U = object.__new__(W.pkg.union.Union)
    d = cfg.get('d', 2)
    U.n_dim = d
    U.enlarge_per_dim = W.real(name + '_enlarge')
    U.n_points_min = d + 1
    U.rng = rng
    U.cube = make_cube(W, d, rng) if cfg.get('unit', True) else None
    U.bounds, U.points_bounds = [], []
    for i, kind in enumerate(cfg.get('members', ['ell'])):
        if kind == 'ell':
            U.bounds.append(make_ell(W, d, rng, '%sb%d' % (name, i)))
        else:
            U.bounds.append(make_mix(W, kind, rng, '%sb%d' % (name, i)))
        U.points_bounds.append(sym_arr(W, '%spb%d' % (name, i),
                                       (cfg.get('n_pts', 2), d)))
    U.log_v_all = np.array([W.real('%s_lv%d' % (name, i))
                            for i in range(len(U.bounds))], dtype=float)
    U.block = np.array([True] * len(U.bounds), dtype=bool)
    k = cfg.get('cache', 0)
    U.points = sym_arr(W, name + 'cache', (k, d))
    if cfg.get('sampled', k > 0):
        U.n_sample = W.int(name + '_ns')
        U.n_reject = W.int(name + '_nr')
        W.assume(U.n_sample >= 1)
        W.assume(U.n_reject >= 0)
        W.assume(U.n_reject < U.n_sample)
    else:
        U.n_sample, U.n_reject = 0, 0
    return U


def make_mlp(W, idx, d, name):
    from vlib.stubs import MLPRegressorStub
    np = W.np
    pkg_mlp = W.pkg.neural.MLPRegressor
    net = pkg_mlp(hidden_layer_sizes=(2,), activation='tanh', alpha=0.0,
                  learning_rate_init=0.01, max_iter=10000, tol=0,
                  n_iter_no_change=10, random_state=idx)
    net.n_layers_ = 3
    net.n_outputs_ = 1
    net.out_activation_ = 'identity'
    net.n_features_in_ = d
    net.n_iter_ = 7 + idx
    net.loss_ = W.real('%s_loss' % name)
    net.best_loss_ = None
    net.loss_curve_ = [W.real('%s_lc0' % name), W.real('%s_lc1' % name)]
    net._no_improvement_count = 0
    net._optimizer = object()
    net.coefs_ = [sym_arr(W, name + 'w0', (d, 2)),
                  sym_arr(W, name + 'w1', (2, 1))]
    net.intercepts_ = [sym_arr(W, name + 'i0', (2,)),
                       sym_arr(W, name + 'i1', (1,))]
    return net


def make_neural(W, cfg, rng, name='nb'):
    NB = W.pkg.neural_bound.NeuralBound
    d = cfg.get('d', 2)
    b = object.__new__(NB)
    b.n_dim = d
    b.outer_bound = make_ell(W, d, rng, name + 'o')
    n_net = cfg.get('n_net', 0)
    if n_net == 0:
        b.emulator = None
        b.score_predict_min = 0
    else:
        em = object.__new__(W.pkg.neural.NeuralNetworkEmulator)
        em.mean = sym_arr(W, name + 'mean', (d,))
        em.scale = sym_arr(W, name + 'scale', (d,))
        em.neural_networks = [make_mlp(W, i, d, '%sn%d' % (name, i))
                              for i in range(n_net)]
        b.emulator = em
        b.score_predict_min = W.real(name + '_spm')
    return b


def make_shift(W, periodic, name='ps'):
    np = W.np
    s = object.__new__(W.pkg.periodic.PhaseShift)
    s.periodic = np.array(list(periodic), dtype=int)
    cs = []
    for i in range(len(periodic)):
        c = W.real('%s_c%d' % (name, i))
        W.assume(c >= 0)
        W.assume(c < 1)
        cs.append(c)
    s.centers = np.array(cs, dtype=float) if cs else np.zeros(0)
    return s


def make_nautilus(W, cfg, rng):
    np = W.np
    d = cfg.get('d', 2)
    b = object.__new__(W.pkg.nautilus.NautilusBound)
    b.n_dim = d
    b.shift = make_shift(W, cfg['periodic']) if cfg.get('periodic') else None
    b.neural_bounds = [make_neural(W, dict(d=d, n_net=cfg.get('n_net', 0)),
                                   rng, 'nb%d' % i)
                       for i in range(cfg.get('n_neural', 1))]
    b.outer_bound = make_union(
        W, dict(d=d, unit=True, members=cfg.get('members', [[False] * d]),
                cache=cfg.get('outer_cache', 0), sampled=True), rng, 'ob')
    b.rng = rng
    k = cfg.get('cache', 0)
    b.points = sym_arr(W, 'nbcache', (k, d))
    if cfg.get('sampled', k > 0):
        b.n_sample = W.int('nb_ns')
        b.n_reject = W.int('nb_nr')
        W.assume(b.n_sample >= 1)
        W.assume(b.n_reject >= 0)
        W.assume(b.n_reject < b.n_sample)
    else:
        b.n_sample, b.n_reject = 0, 0
    return b


def build(W, cfg, rng):
    kind = cfg['kind']
    d = cfg.get('d', 2)
    if kind == 'UnitCube':
        return make_cube(W, d, rng), W.pkg.basic.UnitCube
    if kind == 'Ellipsoid':
        return make_ell(W, d, rng), W.pkg.basic.Ellipsoid
    if kind == 'Mixture':
        return make_mix(W, cfg['pattern'], rng), \
            W.pkg.basic.UnitCubeEllipsoidMixture
    if kind == 'Union':
        return make_union(W, cfg, rng), W.pkg.union.Union
    if kind == 'NeuralBound':
        return make_neural(W, cfg, rng), W.pkg.neural_bound.NeuralBound
    if kind == 'PhaseShift':
        return make_shift(W, cfg['periodic']), W.pkg.periodic.PhaseShift
    if kind == 'NautilusBound':
        return make_nautilus(W, cfg, rng), W.pkg.nautilus.NautilusBound
    raise ValueError(kind)


class Store(object):
    """a group to write to / read from (symh5 or real h5py)"""

    def __init__(self, W):
        self.W = W
        if W.symbolic:
            symh5.reset()
            self.h5 = symh5.h5py
            self.path = '/io/bound.h5'
        else:
            import h5py
            self.h5 = h5py
            self.dir = tempfile.mkdtemp(prefix='nautilus_verif_')
            self.path = os.path.join(self.dir, 'bound.h5')
        self.n = 0

    def new_file(self):
        self.n += 1
        p = self.path.replace('.h5', '_%d.h5' % self.n)
        return p

    def close(self):
        if not self.W.symbolic:
            shutil.rmtree(self.dir, ignore_errors=True)


def roundtrip(W, store, obj, cls, rng_clone, path=None):
    path = path or store.new_file()
    f = store.h5.File(path, 'w')
    obj.write(f.create_group('bound'))
    f.close()
    f = store.h5.File(path, 'r')
    try:
        if cls.__name__ == 'PhaseShift':
            return cls.read(f['bound']), path
        return cls.read(f['bound'], rng=rng_clone), path
    finally:
        f.close()


def behaviour(W, obj, X, n, kind, label):
    """observable behaviour as a flat list of (name, scalar)"""
    np = W.np
    out = []
    if kind == 'PhaseShift':
        for inv in (False, True):
            ok, t = call(W, label + ':transform-no-raise',
                         lambda: obj.transform(X, inverse=inv))
            if not ok:
                return None
            out.extend(('transform%s[%d]' % (inv, i), v) for i, v in
                       enumerate(np.asarray(t).reshape(-1).tolist()))
        return out
    ok, c = call(W, label + ':contains-no-raise', lambda: obj.contains(X))
    if not ok:
        return None
    out.extend(('contains[%d]' % i, v) for i, v in
               enumerate(np.asarray(c).reshape(-1).tolist()))
    if kind == 'NeuralBound':
        return out
    ok, lv = call(W, label + ':log_v-no-raise', lambda: obj.log_v)
    if not ok:
        return None
    out.append(('log_v', lv))
    for rep in range(1 if kind in ('Union', 'NautilusBound') else 2):
        ok, s = call(W, label + ':sample-no-raise', lambda: obj.sample(n))
        if not ok:
            return None
        out.append(('sample%d.shape' % rep, tuple(s.shape)))
        out.extend(('sample%d[%d]' % (rep, i), v) for i, v in
                   enumerate(np.asarray(s).reshape(-1).tolist()))
    ok, lv = call(W, label + ':log_v-no-raise', lambda: obj.log_v)
    if ok:
        out.append(('log_v-after', lv))
    return out


def same_behaviour(W, a, b, label):
    if a is None or b is None:
        return
    na, nb = [x for x, _ in a], [x for x, _ in b]
    W.require(na == nb, label, 'different shape of results')
    if na != nb:
        return
    from .sampler_steps import require_same
    for (n, x), (_, y) in zip(a, b):
        require_same(W, x, y, label, n)


def limit_rounds(W, rng, unroll):
    from vlib.engine import BeyondBound
    orig = rng.multinomial
    count = {'n': 0}

    def multinomial(n, p):
        count['n'] += 1
        if count['n'] > unroll:
            raise BeyondBound('more than %d proposal rounds' % unroll)
        return orig(n, p)
    rng.multinomial = multinomial


def io(W, cfg):
    """write -> read: identical behaviour (C09)"""
    np = W.np
    kind = cfg['kind']
    d = cfg.get('d', 2)
    rng1 = StubRNG(stream=1, draws=4)
    rng2 = StubRNG(stream=1, draws=4)
    limit_rounds(W, rng1, cfg.get('unroll', 3))
    limit_rounds(W, rng2, cfg.get('unroll', 3))
    obj, cls = build(W, cfg, rng1)
    store = Store(W)
    try:
        ok, res = call(W, 'C09:write-read-no-raise',
                       lambda: roundtrip(W, store, obj, cls, rng2))
        if not ok:
            return
        copy, _ = res
        X = sym_arr(W, 'X', (2, d))
        n = cfg.get('n', 1)
        ba = behaviour(W, obj, X, n, kind, 'C09:original')
        bb = behaviour(W, copy, X, n, kind, 'C09:read-back')
        if ba is not None:
            W.require(bb is not None, 'C09:read-back-behaves',
                      'read-back object raised where the original did not')
        same_behaviour(W, ba, bb, 'C09:read-back-identical')
        W.require(rng1.draws == rng2.draws, 'C09:same-generator-use', '')
    finally:
        store.close()


def io_fields(W, cfg):
    """write -> read keeps every persisted field, record by record (cheap
    structural companion of io() for objects with many members)"""
    rng1 = StubRNG(stream=1, draws=4)
    rng2 = StubRNG(stream=1, draws=4)
    obj, cls = build(W, cfg, rng1)
    store = Store(W)
    try:
        ok, res = call(W, 'C09:write-read-no-raise',
                       lambda: roundtrip(W, store, obj, cls, rng2))
        if not ok:
            return
        copy, _ = res
        same_behaviour(W, deep_fields(W, obj), deep_fields(W, copy),
                       'C09:read-back-fields-identical')
    finally:
        store.close()


def update(W, cfg):
    """write, sample, update, read  ==  the live object / a full write+read"""
    np = W.np
    kind = cfg['kind']
    d = cfg.get('d', 2)
    rng1 = StubRNG(stream=1, draws=4)
    limit_rounds(W, rng1, cfg.get('unroll', 3))
    obj, cls = build(W, cfg, rng1)
    store = Store(W)
    try:
        path = store.new_file()
        f = store.h5.File(path, 'w')
        ok, _ = call(W, 'C09:write-no-raise',
                     lambda: obj.write(f.create_group('bound')))
        f.close()
        if not ok:
            return
        ok, s = call(W, 'C09:sample-no-raise',
                     lambda: obj.sample(cfg.get('n', 1)))
        if not ok:
            return
        f = store.h5.File(path, 'r+')
        ok, _ = call(W, 'C09:update-no-raise', lambda: obj.update(f['bound']))
        f.close()
        if not ok:
            return
        draws = rng1.draws
        rngA = StubRNG(stream=1, draws=draws)
        rngB = StubRNG(stream=1, draws=draws)
        rngC = StubRNG(stream=1, draws=draws)
        for r in (rngA, rngB, rngC):
            limit_rounds(W, r, cfg.get('unroll', 3))
        f = store.h5.File(path, 'r')
        ok, upd = call(W, 'C09:read-after-update-no-raise',
                       lambda: cls.read(f['bound'], rng=rngA))
        f.close()
        if not ok:
            return
        ok, res = call(W, 'C09:write-read-no-raise',
                       lambda: roundtrip(W, store, obj, cls, rngB))
        if not ok:
            return
        full, _ = res
        fl = deep_fields(W, obj)
        same_behaviour(W, fl, deep_fields(W, upd),
                       'C09:update-equals-live-object')
        same_behaviour(W, deep_fields(W, full), deep_fields(W, upd),
                       'C09:update-equals-full-write')
    finally:
        store.close()


SKIP = ('rng', '_optimizer', '_random_state', 'block', 'best_loss_',
        'validation_scores_', 'best_validation_score_')


def deep_fields(W, obj, prefix=''):
    """every persisted field of a bound, recursively, as (name, scalar)"""
    np = W.np
    out = []
    if obj is None:
        return [(prefix, None)]
    if isinstance(obj, (bool, int, float, str)) or type(obj).__name__ == 'SV':
        return [(prefix, obj)]
    if getattr(obj, 'shape', None) == () and hasattr(obj, 'item'):
        return [(prefix, obj.item())]
    if hasattr(obj, 'shape') and hasattr(obj, 'reshape'):
        a = np.asarray(obj)
        out.append((prefix + '.shape', tuple(int(x) for x in a.shape)))
        out.extend(('%s[%d]' % (prefix, i), v) for i, v in
                   enumerate(a.reshape(-1).tolist()))
        return out
    if isinstance(obj, (list, tuple)):
        out.append((prefix + '.len', len(obj)))
        for i, x in enumerate(obj):
            out.extend(deep_fields(W, x, '%s[%d]' % (prefix, i)))
        return out
    if hasattr(obj, '__dict__'):
        out.append((prefix + '.type', type(obj).__name__))
        if 'MLPRegressor' in type(obj).__name__:
            # a network is what its predict() reads
            for k in ('coefs_', 'intercepts_', 'n_layers_', 'activation',
                      'out_activation_'):
                out.extend(deep_fields(W, getattr(obj, k, None),
                                       prefix + '.' + k))
            return out
        for k in sorted(obj.__dict__):
            if k in SKIP or callable(obj.__dict__[k]):
                continue
            out.extend(deep_fields(W, obj.__dict__[k], prefix + '.' + k))
        return out
    # numpy scalars etc.
    try:
        return [(prefix, obj.item())]
    except Exception:
        return [(prefix, repr(type(obj)))]


def reseat(obj, rng):
    """give every nested bound of a live object the cloned generator"""
    seen = set()

    def rec(o):
        if id(o) in seen or o is None:
            return
        seen.add(id(o))
        if hasattr(o, 'rng'):
            o.rng = rng
        for a in ('cube', 'ellipsoid', 'outer_bound'):
            if hasattr(o, a):
                rec(getattr(o, a))
        for a in ('bounds', 'neural_bounds'):
            for x in getattr(o, a, []) or []:
                rec(x)
    rec(obj)
