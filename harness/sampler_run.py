"""Real Sampler.run() unrolled at most K loop iterations from an arbitrary
invariant state, with symbolic limits and a symbolic clock (C10, C12, and the
end-of-exploration block for C01/C02/C03)."""
from vlib import world
from vlib.engine import BeyondBound
from . import sampler_state as st
from .sampler_steps import (call, snapshot, stored_rows, check_append_only,
                            check_stats_fresh, ident, install_counters)

INF = float('inf')


def run_steps(W, cfg):
    np = W.np
    S, like = st.build(W, cfg)
    props = cfg.get('props', ['C10'])
    K = cfg.get('K', 1)
    # symbolic run() arguments
    f_live = world.threshold(W, 'arg_f_live')
    n_shell = world.threshold(W, 'arg_n_shell', 'int')
    W.assume(n_shell.sv >= 0 if W.symbolic else n_shell.value >= 0)
    W.assume(n_shell.sv <= 3 if W.symbolic else n_shell.value <= 3)
    n_eff_t = world.threshold(W, 'arg_n_eff')
    if cfg.get('n_like_max') == 'inf':
        n_like_max = INF
    else:
        n_like_max = world.threshold(W, 'arg_n_like_max', 'int')
    if cfg.get('timeout') == 'inf':
        timeout = INF
    else:
        timeout = world.threshold(W, 'arg_timeout')
    discard = cfg.get('run_discard', False)
    if cfg.get('timeout') != 'inf' and cfg.get('force_timeout', True):
        # clock reads: t_start, then one per loop-guard evaluation; the
        # (K+1)-th guard evaluation sees the time limit reached
        W.clock_force = (K + 1, timeout.sv if W.symbolic else timeout.value)

    if cfg.get('no_new_bound'):
        # histories in which no bound is due in this slice
        W.assume(S.n_update_iter + (K + 1) * S.n_batch < S.n_update)
        W.assume(S.n_like_iter + (K + 1) * S.n_batch < S.n_like_new_bound)
    has_max = cfg.get('n_like_max') != 'inf'
    has_timeout = cfg.get('timeout') != 'inf'

    def raw(t):
        return t.sv if W.symbolic else t.value
    pre = snapshot(S)
    pre_explored = S.explored
    pre_nlike = S.n_like
    iters = []
    orig_add = S.add_samples
    counter = install_counters(S, unroll=cfg.get('unroll', 2) * (K + 1))
    log = dict(add_bound=0)

    def add_samples(shell, verbose=False):
        # one loop iteration = one evaluation of the loop guard = one clock
        # reading; the unrolling bound is on iterations, not on calls
        if len(set(it['clock'] for it in iters) | {W._clock_n - 1}) > K:
            raise BeyondBound('more than %d run() iterations' % K)
        if len(iters) >= K + 3:
            raise BeyondBound('too many batches')
        iters.append(dict(n_like=S.n_like, clock=W._clock_n - 1,
                          calls_before=len(like.calls), shell=shell,
                          explored=S.explored))
        return orig_add(shell, verbose=verbose)
    S.add_samples = add_samples
    orig_bound = S.add_bound

    def add_bound(verbose=False):
        log['add_bound'] += 1
        log['explored_at_add_bound'] = S.explored
        # new stub bounds must get proposal counters as well
        r = orig_bound(verbose=verbose)
        return r
    S.add_bound = add_bound

    ok, ret = call(W, props[0] + ':run-no-raise', lambda: S.run(
        f_live=f_live, n_shell=n_shell, n_eff=n_eff_t, n_like_max=n_like_max,
        discard_exploration=discard, timeout=timeout, verbose=False))
    if not ok:
        return
    S.add_samples = orig_add
    S.add_bound = orig_bound
    n_calls = len(like.calls)
    B = len(S.bounds)

    if not world.thresholds_consistent(W):
        raise world.ReplayMismatch('no single threshold value is consistent '
                                   'with the replayed comparisons')
    if not st.check_alignment(W, S, tag='-after-run'):
        return

    if 'C10' in props:
        W.require(S.n_like == pre_nlike + n_calls, 'C10:count-equals-calls',
                  '%d calls' % n_calls)
        W.require(len(set(it['clock'] for it in iters)) == len(iters),
                  'C10:one-batch-per-step',
                  '%d batches in %d loop iterations' % (
                      len(iters), len(set(it['clock'] for it in iters))))
        for k, it in enumerate(iters):
            end = iters[k + 1]['calls_before'] if k + 1 < len(iters) \
                else n_calls
            nb = end - it['calls_before']
            W.require(nb == S.n_batch, 'C10:one-batch-per-step',
                      'iteration %d evaluated %d points' % (k, nb))
            if has_max:
                W.require(it['n_like'] < raw(n_like_max), 'C10:budget-guard',
                          'iteration %d started at the limit' % k)
            if has_timeout and it['clock'] >= 1:
                t_now = W.clock_value(it['clock'])
                t0 = W.clock_value(0)
                W.require(t_now - t0 < raw(timeout), 'C10:timeout-guard',
                          'iteration %d' % k)
        for p in like.calls:
            W.require(st.in_cube(W, p), 'C10:evaluated-in-cube', '')
        if has_max and iters:
            W.require(S.n_like < raw(n_like_max) + S.n_batch,
                      'C10:overshoot-less-than-a-batch', '')
        # return value == success predicate on the final state
        ok2, ne = call(W, 'C10:n_eff-no-raise', lambda: S.n_eff)
        if ok2:
            spec = S.explored
            if spec:
                allsh = True
                for i in range(B):
                    allsh = world._and(allsh, S.shell_n[i] >= raw(n_shell))
                spec = world._and(allsh, ne >= raw(n_eff_t))
            if isinstance(spec, bool):
                W.require(bool(ret) == spec, 'C10:return-value',
                          'returned %r' % (ret,))
            else:
                W.require(spec == bool(ret) if W.symbolic
                          else bool(spec) == bool(ret),
                          'C10:return-value', 'returned %r' % (ret,))
        if ret:
            # re-entering run() once the goal is met does nothing
            snap2 = snapshot(S)
            n2 = len(like.calls)
            draws2 = S.rng.draws
            ok3, ret2 = call(W, 'C10:rerun-no-raise', lambda: S.run(
                f_live=f_live, n_shell=n_shell, n_eff=n_eff_t,
                n_like_max=n_like_max, discard_exploration=discard,
                timeout=timeout, verbose=False))
            if ok3:
                W.require(bool(ret2) and len(like.calls) == n2 and
                          S.rng.draws == draws2 and
                          W.same(S.n_like, snap2['n_like']) is not False,
                          'C10:rerun-is-noop', '')
                if W.symbolic:
                    W.require(S.n_like == snap2['n_like'],
                              'C10:rerun-is-noop', 'n_like')

    if 'C12' in props:
        if pre_explored:
            W.require(S.explored is True or S.explored == True,  # noqa
                      'C12:exploration-never-resumes', '')
            W.require(log['add_bound'] == 0, 'C12:no-bound-after-exploration',
                      '')
            check_append_only(W, S, pre)
        if S.explored:
            ok_ne = all(len(S.points[i]) >= 1 for i in range(B))
            W.require(ok_ne, 'C12:every-shell-non-empty', '')
            if not pre_explored:
                # exploration just ended: the cut is at the current lengths
                good = len(S.shell_end_exp) == B and \
                    len(S.shell_n_sample_exp) == B
                W.require(good, 'C12:end-of-exploration-vectors', '')
                if good and not iters_after_end(iters, S):
                    for i in range(B):
                        W.require(S.shell_end_exp[i] == len(S.points[i]),
                                  'C12:exploration-cut-at-end', 'shell %d' % i)
                        W.require(W.same(S.shell_n_sample_exp[i],
                                         S.shell_n_sample[i]),
                                  'C12:exploration-cut-at-end', 'shell %d' % i)
                W.require(S._discard_exploration is discard or
                          S._discard_exploration == discard,
                          'C12:discard-as-requested', '')
            if S._discard_exploration and len(S.shell_end_exp) == B:
                # the view shows exactly the samples drawn after the cut
                for i in range(B):
                    cut = W.concrete_int(S.shell_end_exp[i])
                    W.require(S.shell_n[i] == len(S.points[i]) - cut,
                              'C12:discard-view-after-run', 'shell %d' % i)

    if 'C01' in props:
        st.check_c01(W, S, tag='-after-run')
    if 'C03' in props:
        st.check_c03_rows(W, S, like, tag='-after-run')
    if 'C02' in props:
        for i in range(B):
            start = 0
            nse = 0
            if S._discard_exploration and S.explored:
                start = W.concrete_int(S.shell_end_exp[i])
                nse = S.shell_n_sample_exp[i]
            n_i = len(S.log_l[i]) - start
            W.require(S.shell_n[i] == n_i, 'C02:shell_n-after-run',
                      'shell %d' % i)
            W.require(W.leq(n_i, S.shell_n_sample[i] - nse),
                      'C02:fraction-at-most-one-after-run', 'shell %d' % i)
        check_stats_fresh(W, S, label='C02:stats-current-after-run',
                          shells=[i for i in range(B)
                                  if len(S.log_l[i]) > 0])


def iters_after_end(iters, S):
    """were batches added after exploration ended within this run()?"""
    return any(it['explored'] for it in iters)
