"""C16 over the reals (symx): frame of transform (non-periodic coordinates and
shape), exact inverse modulo one, and the largest-gap placement of compute."""
from vlib import world
from .sampler_steps import call, ident


def mk_points(W, n, d, name='x', free=()):
    """points in the unit cube; coordinates listed in `free` are arbitrary
    reals (non-periodic coordinates must be untouched whatever they are)"""
    np = W.np
    rows = []
    for j in range(n):
        row = []
        for k in range(d):
            v = W.real('%s_%d_%d' % (name, j, k))
            if k not in free:
                W.assume(v >= 0)
                W.assume(v < 1)
            row.append(v)
        rows.append(row)
    return np.array(rows, dtype=float), rows


def frame(W, cfg):
    """transform / inverse on an arbitrary shift: shape kept, non-periodic
    cells identical, periodic cells in [0,1), inverse(forward(x)) == x."""
    np = W.np
    PS = W.pkg.periodic.PhaseShift
    d, n = cfg['d'], cfg.get('n', 2)
    periodic = cfg['periodic']
    s = PS()
    s.periodic = np.array(periodic, dtype=int)
    cs = []
    for i in range(len(periodic)):
        c = W.real('c_%d' % i)
        W.assume(c >= 0)
        W.assume(c < 1)
        cs.append(c)
    s.centers = np.array(cs, dtype=float) if cs else np.zeros(0)
    pts, rows = mk_points(W, n, d,
                          free=[k for k in range(d) if k not in periodic])
    for inverse in (False, True):
        tag = '-inverse' if inverse else ''
        ok, out = call(W, 'C16:transform-no-raise',
                       lambda: s.transform(pts, inverse=inverse))
        if not ok:
            return
        W.require(tuple(out.shape) == (n, d), 'C16:shape' + tag, str(out.shape))
        if tuple(out.shape) != (n, d):
            return
        for j in range(n):
            for k in range(d):
                if k in periodic:
                    W.require(world._and(W.leq(0, out[j][k]), out[j][k] < 1),
                              'C16:range-reals' + tag, 'cell %d,%d' % (j, k))
                else:
                    W.require(W.same(out[j][k], rows[j][k]),
                              'C16:non-periodic-untouched' + tag,
                              'cell %d,%d' % (j, k))
        # input array not modified
        for j in range(n):
            for k in range(d):
                W.require(W.same(pts[j][k], rows[j][k]),
                          'C16:input-unmodified' + tag, 'cell %d,%d' % (j, k))
    ok, fw = call(W, 'C16:transform-no-raise', lambda: s.transform(pts))
    ok2, back = call(W, 'C16:transform-no-raise',
                     lambda: s.transform(fw, inverse=True))
    if ok and ok2:
        for j in range(n):
            for k in range(d):
                W.require(W.same(back[j][k], rows[j][k]),
                          'C16:inverse-exact-reals', 'cell %d,%d' % (j, k))


def gap(W, cfg):
    """compute() places the largest circular gap of the construction points
    across the boundary: after the shift every construction point lies in
    [g/2, 1 - g/2] (g = largest gap of that coordinate), centres in [0,1)."""
    np = W.np
    PS = W.pkg.periodic.PhaseShift
    d, n = cfg['d'], cfg['n']
    periodic = cfg['periodic']
    pts, rows = mk_points(W, n, d)
    ok, s = call(W, 'C16:compute-no-raise',
                 lambda: PS.compute(pts, np.array(periodic, dtype=int)))
    if not ok:
        return
    W.require(len(s.centers) == len(periodic), 'C16:centers-length', '')
    ok, out = call(W, 'C16:transform-no-raise', lambda: s.transform(pts))
    if not ok:
        return
    for i, k in enumerate(periodic):
        c = s.centers[i]
        W.require(world._and(c >= 0, c < 1), 'C16:center-in-unit',
                  'coordinate %d' % k)
        xs = [rows[j][k] for j in range(n)]
        g = largest_gap(W, xs)
        for j in range(n):
            t = out[j][k]
            W.require(world._and(W.leq(g / 2, t), W.leq(t, 1 - g / 2)),
                      'C16:largest-gap-across-boundary',
                      'coordinate %d point %d' % (k, j))


def largest_gap(W, xs):
    """largest circular gap of xs in [0,1): for every point, the distance to
    its circular successor; computed without sorting (no forks)."""
    from vlib.engine import sv_if
    n = len(xs)
    if n == 1:
        return 1.0
    best = None
    for a in range(n):
        # successor distance of xs[a]: min over b != a of (xs[b]-xs[a]) mod 1
        # (ties: equal points give distance 0 unless all later indices ...)
        succ = None
        for b in range(n):
            if b == a:
                continue
            if W.symbolic:
                dlt = sv_if(xs[b] > xs[a], xs[b] - xs[a],
                            sv_if(xs[b] < xs[a], xs[b] - xs[a] + 1,
                                  # equal values: one of them is "first"
                                  0.0 if b > a else 1.0))
                succ = dlt if succ is None else sv_if(dlt < succ, dlt, succ)
            else:
                if xs[b] > xs[a]:
                    dlt = xs[b] - xs[a]
                elif xs[b] < xs[a]:
                    dlt = xs[b] - xs[a] + 1
                else:
                    dlt = 0.0 if b > a else 1.0
                succ = dlt if succ is None else min(dlt, succ)
        if W.symbolic:
            best = succ if best is None else sv_if(succ > best, succ, best)
        else:
            best = succ if best is None else max(succ, best)
    return best
