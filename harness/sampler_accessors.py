"""C02 accessor obligations: from an arbitrary invariant state, the real
log_z / n_eff / eta / posterior() / shell volumes equal the importance-sampling
estimators of exactly the stored samples, written independently in the linear
(exp) domain and discharged by nlsat."""
from vlib import world
from . import sampler_state as st
from .sampler_steps import call, ident

INF = float('inf')


def spec(W, S, A):
    """per-sample weights w_ij = l_ij * V_i / n_i of the stored samples that
    are in view (after the exploration cut when discarding)."""
    B = len(S.bounds)
    shells = []
    for i in range(B):
        start, nse = 0, 0
        if S._discard_exploration and S.explored:
            start = W.concrete_int(S.shell_end_exp[i])
            nse = S.shell_n_sample_exp[i]
        lls = [S.log_l[i][j] for j in range(start, len(S.log_l[i]))]
        n = len(lls)
        if n == 0:
            shells.append(dict(n=0, w=[], ell=[], V=None, start=start))
            continue
        Vb = A.E(S.bounds[i].log_v) if i > 0 else A.num(1)
        ns_eff = A.T(S.shell_n_sample[i] - nse)
        V = Vb * A.num(n) / ns_eff
        ell = [A.E(x) for x in lls]
        w = [e * V / A.num(n) for e in ell]
        shells.append(dict(n=n, w=w, ell=ell, V=V, Vb=Vb, start=start))
    return shells


def exp_guarded(W, label, fn, what,
                label2='C02:exp-argument-cannot-overflow'):
    """call fn; in the symbolic world every argument the code hands to
    np.exp inside must be provably below the float64 overflow threshold,
    whatever the scale of the likelihood (the estimators normalise by the
    maximum first).  A counterexample is a likelihood scale; on the real code
    it shows as an estimator that is inf / nan."""
    if not W.symbolic:
        return call(W, label, fn)
    W.np.EXP_ARGS = []
    try:
        ok, r = call(W, label, fn)
    finally:
        args, W.np.EXP_ARGS = W.np.EXP_ARGS, None
    for k, a in enumerate(args):
        W.require(a <= 709, label2,
                  '%s: argument %d of np.exp is not bounded by the '
                  'normalisation' % (what, k))
    return ok, r


def accessors(W, cfg):
    S, like = st.build(W, cfg)
    which = cfg.get('which', ['volume', 'log_z', 'weights', 'n_eff'])
    A = W.alg()
    sh = spec(W, S, A)
    allw = [w for s in sh for w in s['w']]
    Z = None
    for w in allw:
        Z = w if Z is None else Z + w
    all_inf = all(st.is_neg_inf(x) for i in range(len(S.log_l))
                  for x in S.log_l[i][sh[i]['start']:])

    if 'volume' in which:
        for i, s in enumerate(sh):
            if s['n'] == 0:
                W.require(st.is_neg_inf(S.shell_log_v[i]),
                          'C02:empty-shell-volume', 'shell %d' % i)
                continue
            W.require_alg(A, A.conj([A.eq(A.E(S.shell_log_v[i]), s['V']),
                                     A.le(s['V'], s['Vb'])]),
                          'C02:shell-volume', 'shell %d' % i)

    if 'log_z' in which:
        ok, lz = exp_guarded(W, 'C02:log_z-no-raise', lambda: S.log_z,
                             'log_z')
        if ok:
            if not allw:
                W.require(lz is None, 'C02:log_z', 'no samples -> None')
            elif all_inf:
                W.require(st.is_neg_inf(lz), 'C02:log_z', 'all -inf')
            else:
                W.require_alg(A, A.eq(A.E(lz), Z), 'C02:log_z',
                              'exp(log_z) == sum l_ij V_i / n_i')

    if 'weights' in which and allw and not all_inf:
        ok, post = exp_guarded(W, 'C02:posterior-no-raise',
                               lambda: S.posterior(), 'posterior')
        if ok:
            pts, log_w, log_l = post
            good = len(log_w) == len(allw) == len(log_l) == len(pts)
            W.require(good, 'C02:posterior-length', '')
            if good:
                k = 0
                eqs, tot = [], None
                for i, s in enumerate(sh):
                    for j in range(s['n']):
                        e = A.E(log_w[k])
                        eqs.append(A.eq(e * Z, s['w'][j]))
                        tot = e if tot is None else tot + e
                        W.require(W.same(log_l[k],
                                         S.log_l[i][s['start'] + j]),
                                  'C02:posterior-log_l', 'row %d' % k)
                        k += 1
                W.require_alg(A, A.conj(eqs), 'C02:weights',
                              'exp(log_w_k) * Z == l_k V_i / n_i')
                W.require_alg(A, A.eq(tot, A.num(1)), 'C02:weights-normalised',
                              'sum exp(log_w) == 1')

    if 'n_eff' in which and allw:
        ok, ne = exp_guarded(W, 'C02:n_eff-no-raise', lambda: S.n_eff,
                             'n_eff')
        if ok:
            if all_inf:
                pass
            else:
                s1, s2 = None, None
                for w in allw:
                    s1 = w if s1 is None else s1 + w
                    s2 = w * w if s2 is None else s2 + w * w
                W.require_alg(A, A.eq(A.T(ne) * s2, s1 * s1), 'C02:n_eff',
                              'Kish effective sample size of the weights')

    if 'eta' in which and allw and not all_inf:
        # (no range obligation here: the bound on eta's exponent needs
        # logsumexp monotonicity, which the main pool does not have)
        ok, eta = call(W, 'C02:eta-no-raise', lambda: S.eta)
        if ok:
            # eta = (sum_i Z_i)^2 / (sum_i Z_i sqrt(n_i / neff_i))^2
            num, den, side = None, None, []
            for i, s in enumerate(sh):
                if s['n'] == 0:
                    continue
                zi, q1, q2 = None, None, None
                for w, e in zip(s['w'], s['ell']):
                    zi = w if zi is None else zi + w
                    q1 = e if q1 is None else q1 + e
                    q2 = e * e if q2 is None else q2 + e * e
                if all(st.is_neg_inf(x) for x in S.log_l[i][s['start']:]):
                    continue
                # r_i = sqrt(n_i * q2) / q1  (sqrt(n_i / neff_i))
                if W.symbolic:
                    import z3
                    r = z3.Real('eta_r_%d' % i)
                    side.append(z3.And(r > 0, r * r * q1 * q1 ==
                                       A.num(s['n']) * q2))
                else:
                    r = (s['n'] * q2) ** 0.5 / q1
                num = zi if num is None else num + zi
                den = zi * r if den is None else den + zi * r
            if W.symbolic:
                import z3
                goal = z3.Implies(z3.And(*side) if side else z3.BoolVal(True),
                                  A.T(eta) * den * den == num * num)
            else:
                goal = A.eq(eta * den * den, num * num)
            W.require_alg(A, goal, 'C02:eta', 'asymptotic efficiency')

    if 'purity' in which:
        pass
