"""C05 / C06: the checkpoint file mirrors the sampler state after every step
of run(); a kill at any journal position leaves a loadable old-or-new state."""
import os
import shutil
import tempfile

from vlib import world, symh5
from vlib.engine import BeyondBound
from . import sampler_state as st
from .sampler_steps import call, ident, install_counters

INF = float('inf')


def ckpt_path(W):
    if W.symbolic:
        symh5.reset(getattr(W, 'h5_model', 'api'))
        return '/ckpt/run.h5'
    d = tempfile.mkdtemp(prefix='nautilus_verif_')
    W.tmpdir = d
    return os.path.join(d, 'run.h5')


def cleanup(W):
    d = getattr(W, 'tmpdir', None)
    if d:
        shutil.rmtree(d, ignore_errors=True)


def rng_state(rng):
    s = rng.bit_generator.state
    return (int(s['state']['state']), int(s['state']['inc']))


def resume(W, S, path):
    Sampler = W.pkg.sampler.Sampler
    return Sampler(S.prior, S.likelihood, n_dim=S.n_dim, n_live=S.n_live,
                   n_update=S.n_update, enlarge_per_dim=S.enlarge_per_dim,
                   n_points_min=S.n_points_min,
                   split_threshold=S.split_threshold, periodic=None,
                   n_networks=0, n_batch=S.n_batch,
                   n_like_new_bound=S.n_like_new_bound,
                   vectorized=S.vectorized, pass_dict=False, pool=None,
                   seed=0, blobs_dtype=None, filepath=path, resume=True)


def fields(W, S):
    """every field a sampler method reads, flattened to (name, scalar)"""
    out = [('n_like', S.n_like), ('explored', bool(S.explored)),
           ('discard', bool(S._discard_exploration)),
           ('n_update_iter', getattr(S, 'n_update_iter', None)),
           ('n_like_iter', getattr(S, 'n_like_iter', None)),
           ('n_bounds', len(S.bounds)), ('rng', rng_state(S.rng))]
    for name in ['shell_n', 'shell_n_sample', 'shell_n_eff',
                 'shell_log_l_min', 'shell_log_l', 'shell_log_v',
                 'shell_n_sample_exp', 'shell_end_exp']:
        a = getattr(S, name)
        out.append((name + '.len', len(a)))
        out.extend(('%s[%d]' % (name, i), a[i]) for i in range(len(a)))
    for i in range(len(S.points)):
        out.append(('points[%d].shape' % i, tuple(S.points[i].shape)))
        for j, p in enumerate(st.rows_of(S.points[i])):
            for c, x in enumerate(p):
                out.append(('points[%d][%d,%d]' % (i, j, c), x))
            out.append(('log_l[%d][%d]' % (i, j), S.log_l[i][j]))
            if S.blobs is not None:
                out.append(('blobs[%d][%d]' % (i, j), S.blobs[i][j]))
    out.append(('blobs-none', S.blobs is None))
    bd = getattr(S, 'blobs_dtype', None)
    out.append(('blobs_dtype', None if bd is None else
                'float' if 'float' in str(getattr(bd, 'tag', bd)) else
                str(getattr(bd, 'tag', bd))))
    if not S.explored:
        out.append(('points_t.shape', tuple(S.points_t.shape)))
        for k, q in enumerate(st.rows_of(S.points_t)):
            for c, x in enumerate(q):
                out.append(('points_t[%d,%d]' % (k, c), x))
            out.append(('shell_t[%d]' % k, S.shell_t[k]))
            out.append(('log_l_t[%d]' % k, S.log_l_t[k]))
            if S.blobs_t is not None:
                out.append(('blobs_t[%d]' % k, S.blobs_t[k]))
        out.append(('blobs_t-none', S.blobs_t is None))
    for i, b in enumerate(S.bounds):
        out.append(('bound[%d].type' % i, type(b).__name__))
        out.append(('bound[%d].n_dim' % i, int(b.n_dim)))
        if hasattr(b, 'idx'):
            out.append(('bound[%d].identity' % i, b.idx))
            out.append(('bound[%d].cache-token' % i, b.token))
        out.append(('bound[%d].shares-rng' % i, b.rng is S.rng))
    return out


def same_state(W, S, S2, label):
    which = 'live'
    try:
        a = fields(W, S)
        which = 'restored'
        b = fields(W, S2)
    except (IndexError, ValueError, TypeError, KeyError, AttributeError) as e:
        W.require(False, label, '%s object is not well-formed: %s: %s'
                  % (which, type(e).__name__, str(e)[:80]))
        return False
    names_a = [n for n, _ in a]
    names_b = [n for n, _ in b]
    W.require(names_a == names_b, label, 'different structure: %s' % (
        [n for n in names_a if n not in names_b][:3] +
        [n for n in names_b if n not in names_a][:3]))
    if names_a != names_b:
        return False
    from .sampler_steps import require_same
    ok = True
    for (n, x), (_, y) in zip(a, b):
        if isinstance(x, bool) or isinstance(y, bool):
            r = W.require(x == y, label, n)
        else:
            r = require_same(W, x, y, label, n)
        ok = ok and bool(r)
    return ok


def setup_run_args(W, cfg, K):
    a = dict(f_live=world.threshold(W, 'arg_f_live'),
             n_shell=world.threshold(W, 'arg_n_shell', 'int'),
             n_eff=world.threshold(W, 'arg_n_eff'),
             n_like_max=world.threshold(W, 'arg_n_like_max', 'int'),
             timeout=world.threshold(W, 'arg_timeout'))
    ns = a['n_shell']
    W.assume(ns.sv >= 0 if W.symbolic else ns.value >= 0)
    W.assume(ns.sv <= 3 if W.symbolic else ns.value <= 3)
    W.clock_force = (K + 1, a['timeout'].sv if W.symbolic
                     else a['timeout'].value)
    a['discard_exploration'] = cfg.get('run_discard', False)
    a['verbose'] = False
    return a


def record_written_states(W, S):
    """fields of the sampler after each completed write / shell update"""
    states = []
    ow, ou = S.write, S.write_shell_update

    def write(*a, **k):
        r = ow(*a, **k)
        states.append(frozen_fields(W, S))
        return r

    def write_shell_update(*a, **k):
        r = ou(*a, **k)
        states.append(frozen_fields(W, S))
        return r
    S.write, S.write_shell_update = write, write_shell_update
    return states


def limit_iterations(S, K):
    iters = []
    orig = S.add_samples

    def add_samples(shell, verbose=False):
        if len(iters) >= K:
            raise BeyondBound('more than %d run() iterations' % K)
        iters.append(shell)
        return orig(shell, verbose=verbose)
    S.add_samples = add_samples
    return iters, orig


def mirror(W, cfg):
    """Mirror(S, F) is established by a full write and preserved by every
    iteration of run() with a checkpoint file (C05)."""
    K = cfg.get('K', 1)
    S, like = st.build(W, cfg)
    path = ckpt_path(W)
    try:
        S.filepath = path
        B0 = len(S.bounds)
        if B0 > 0:
            ok, _ = call(W, 'C05:write-no-raise',
                         lambda: S.write(path, overwrite=True))
            if not ok:
                return
            ok, S2 = call(W, 'C05:resume-no-raise', lambda: resume(W, S, path))
            if not ok:
                return
            same_state(W, S, S2, 'C05:full-write-mirrors-state')
        if cfg.get('no_new_bound'):
            W.assume(S.n_update_iter + (K + 1) * S.n_batch < S.n_update)
            W.assume(S.n_like_iter + (K + 1) * S.n_batch < S.n_like_new_bound)
        if cfg.get('toggle_before') and S.explored:
            # the view is switched between two run() slices ("set
            # afterwards"); the next batch boundary must again be resumable
            flip = not S._discard_exploration
            ok, _ = call(W, 'C12:setter-no-raise',
                         lambda: setattr(S, 'discard_exploration', flip))
            if not ok:
                return
        args = setup_run_args(W, cfg, K)
        install_counters(S, unroll=cfg.get('unroll', 2) * (K + 1))
        iters, orig = limit_iterations(S, K)
        ok, ret = call(W, 'C05:run-no-raise', lambda: S.run(**args))
        S.add_samples = orig
        if not ok:
            return
        if not world.thresholds_consistent(W):
            raise world.ReplayMismatch('inconsistent thresholds')
        if len(S.bounds) == 0:
            return
        exists = symh5.Path(path).exists() if W.symbolic else \
            os.path.exists(path)
        if not iters and B0 == 0:
            return
        if cfg.get('toggle_before') and not iters:
            # the setter alone writes nothing (a view change the script
            # repeats); the claim is about the next batch boundary
            return
        W.require(exists, 'C05:checkpoint-exists', 'after run()')
        if not exists:
            return
        ok, S3 = call(W, 'C05:resume-no-raise', lambda: resume(W, S, path))
        if not ok:
            return
        if same_state(W, S, S3, 'C05:file-mirrors-state-after-step') and \
                S.explored:
            # discard set after a resume is the same view as on the live
            # object (C12 clause "or set after a resume")
            flip = not S._discard_exploration
            ok1, _ = call(W, 'C12:setter-no-raise',
                          lambda: setattr(S, 'discard_exploration', flip))
            ok2, _ = call(W, 'C12:setter-no-raise',
                          lambda: setattr(S3, 'discard_exploration', flip))
            if ok1 and ok2:
                same_state(W, S, S3, 'C12:discard-after-resume-same-view')
    finally:
        cleanup(W)


# ---------------------------------------------------------------------------
# C06: kill at any journal position
# ---------------------------------------------------------------------------

def frozen_fields(W, S):
    return [(n, v) for n, v in fields(W, S)]


def match(W, fa, fb):
    """scalar truth: field lists equal (term identity / tolerance)"""
    if [n for n, _ in fa] != [n for n, _ in fb]:
        return False
    for (n, x), (_, y) in zip(fa, fb):
        if isinstance(x, (tuple, str, bool)) or x is None or \
                isinstance(y, (tuple, str, bool)) or y is None:
            good = (x == y)
        elif W.symbolic:
            good = ident(W, x, y)
        else:
            good = W.same(x, y)
        if not good:
            return False
    return True


def crash(W, cfg):
    K = 1
    W.h5_model = cfg.get('h5_model', 'api')
    S, like = st.build(W, cfg)
    path = ckpt_path(W)
    try:
        S.filepath = path
        B0 = len(S.bounds)
        had_file = B0 > 0
        if had_file:
            ok, _ = call(W, 'C06:write-no-raise',
                         lambda: S.write(path, overwrite=True))
            if not ok:
                return
        if cfg.get('no_new_bound'):
            W.assume(S.n_update_iter + (K + 1) * S.n_batch < S.n_update)
            W.assume(S.n_like_iter + (K + 1) * S.n_batch < S.n_like_new_bound)
        old = frozen_fields(W, S) if had_file else None
        args = setup_run_args(W, cfg, K)
        install_counters(S, unroll=cfg.get('unroll', 2) * (K + 1))
        if W.symbolic:
            crash_symbolic(W, cfg, S, path, args, old, had_file, K)
        else:
            crash_concrete(W, cfg, S, path, args, old, had_file, K)
    finally:
        cleanup(W)


def crash_symbolic(W, cfg, S, path, args, old, had_file, K):
    fs = symh5.FS
    snap = fs.snapshot()
    j0 = len(fs.journal)
    iters, orig = limit_iterations(S, K)
    new = record_written_states(W, S)
    ok, ret = call(W, 'C06:run-no-raise', lambda: S.run(**args))
    S.add_samples = orig
    if not ok:
        return
    journal = fs.journal[j0:]
    sites = fs.sites[j0:]
    N = len(journal)
    if N == 0:
        return
    k = W.int('crash_at')
    live = symh5.FS
    for kk in range(N + 1):
        where = 'kill after %d of %d file operations (%s)' % (
            kk, N, 'before the first' if kk == 0 else
            'last completed: %s inside %s' % (journal[kk - 1][0],
                                              sites[kk - 1]))
        if 0 < kk < N:
            where += '; next: %s inside %s' % (journal[kk][0], sites[kk])
        # which write call is the kill strictly inside of
        window = 'none'
        if 0 < kk < N and sites[kk - 1] == sites[kk] and \
                journal[kk - 1][0] != 'close_w':
            window = sites[kk]
        where += ' window=' + window
        symh5.use(fs.crashed(snap, journal, kk, model=W.h5_model))
        try:
            with W.scoped(k == kk):
                check_after_crash(W, S, path, old, new, had_file, where)
        finally:
            symh5.use(live)


def check_after_crash(W, S, path, old, new, had_file, where):
    exists = symh5.Path(path).exists() if W.symbolic else os.path.exists(path)
    if had_file:
        W.require(exists, 'C06:checkpoint-exists', where)
    if not exists:
        return
    try:
        S2 = resume(W, S, path)
    except (world.ReplayDone, world.ReplayMismatch):
        raise
    except Exception as e:
        W.fail('C06:checkpoint-loadable', '%s: resume raises %s: %s' % (
            where, type(e).__name__, str(e)[:80]))
        return
    try:
        got = frozen_fields(W, S2)
    except (IndexError, ValueError, TypeError, KeyError, AttributeError):
        got = None          # restored object is not even well-formed
    good = got is not None and any(match(W, got, st_) for st_ in new)
    good = good or (got is not None and old is not None and
                    match(W, got, old))
    W.require(good, 'C06:old-or-new-state', where)
    if good:
        # re-running the script continues: the resumed sampler can write its
        # next full checkpoint (a left-over temporary file must not block it)
        try:
            S2.write(path, overwrite=True)
            W.ok('C06:rerun-can-checkpoint')
        except (world.ReplayDone, world.ReplayMismatch):
            raise
        except Exception as e:
            W.fail('C06:rerun-can-checkpoint', '%s: next full write of the '
                   'resumed sampler raises %s: %s' % (
                       where, type(e).__name__, str(e)[:80]))


def crash_concrete(W, cfg, S, path, args, old, had_file, K):
    """real h5py: a forked child performs the step and is killed
    (os._exit) at operation k; the parent repeats the step completely to
    obtain the new state, then resumes from the file the child left."""
    from vlib import realh5
    kk = W.int('crash_at')
    keep = path + '.old_copy'
    if had_file:
        shutil.copy(path, keep)
    import sys
    sys.stdout.flush()
    pid = os.fork()
    if pid == 0:
        try:
            realh5.reset(kill_at=kk,
                         eager=getattr(W, 'h5_model', 'api') == 'api')
            iters, orig = limit_iterations(S, K)
            S.run(**args)
        except BaseException:
            os._exit(78)
        os._exit(0)
    _, status = os.waitpid(pid, 0)
    code = os.waitstatus_to_exitcode(status)
    if code == 78:
        raise world.ReplayMismatch('child raised during the step')
    crashed = path + '.crashed'
    left = os.path.exists(path)
    if left:
        os.replace(path, crashed)
    tmp_left = os.path.exists(path + '.tmp')
    if tmp_left:
        os.replace(path + '.tmp', path + '.tmp.crashed')
    if had_file:
        shutil.copy(keep, path)
    realh5.reset(kill_at=None)
    iters, orig = limit_iterations(S, K)
    new = record_written_states(W, S)
    ok, ret = call(W, 'C06:run-no-raise', lambda: S.run(**args))
    S.add_samples = orig
    if not ok:
        return
    if os.path.exists(path):
        os.remove(path)
    if os.path.exists(path + '.tmp'):
        os.remove(path + '.tmp')
    if left:
        os.replace(crashed, path)
    if tmp_left:
        os.replace(path + '.tmp.crashed', path + '.tmp')
    where = 'kill after %d file operations (real h5py, child exit %d)' % (
        kk, code)
    check_after_crash(W, S, path, old, new, had_file, where)


def write_resume(W, cfg):
    """full write followed by a resume of a sampler with many shells: every
    field, and the identity of the bound of every shell, comes back in place
    (C05); the resumed sampler still satisfies the shell-membership invariant
    (C01)."""
    S, like = st.build(W, cfg)
    path = ckpt_path(W)
    try:
        S.filepath = path
        ok, _ = call(W, 'C05:write-no-raise',
                     lambda: S.write(path, overwrite=True))
        if not ok:
            return
        ok, S2 = call(W, 'C05:resume-no-raise', lambda: resume(W, S, path))
        if not ok:
            return
        same_state(W, S, S2, 'C05:full-write-mirrors-state')
        if 'C01' in cfg.get('props', []):
            try:
                st.check_c01(W, S2, tag='-after-resume')
            except (IndexError, AttributeError) as e:
                W.require(False, 'C01:resumed-sampler-well-formed', repr(e))
    finally:
        cleanup(W)
