"""C14: the equal-weight posterior is an unbiased, order-preserving
resampling (real Sampler.posterior(equal_weight=True))."""
import math

from vlib import world
from vlib.engine import SV
from . import sampler_state as st
from .sampler_steps import call, ident, snapshot

INF = float('inf')


def equal_weight(W, cfg):
    if W.symbolic:
        W.eng.lemmas = True
    S, like = st.build(W, cfg)
    np = W.np
    boost = W.real('boost')
    W.assume(boost > 0)
    W.assume(boost < cfg.get('boost_max', 3))
    blobs = bool(cfg.get('blobs'))
    # weighted posterior before
    ok, before = call(W, 'C14:posterior-no-raise',
                      lambda: S.posterior(return_blobs=blobs))
    if not ok:
        return
    snap = snapshot(S)
    draws0 = S.rng.draws
    if W.symbolic:
        run_once(W, cfg, S, like, boost, before, blobs)
    else:
        # replay: the uniform draws are free inputs; sweep them over a grid
        # in addition to the model's values (real exp/log are used here)
        n = len(before[1])
        grids = [None] + [[(g + 0.37 * k) % 1.0 for k in range(n)]
                          for g in (0.03, 0.13, 0.23, 0.33, 0.43, 0.53, 0.63,
                                    0.73, 0.83, 0.93, 0.999)]
        for g in grids:
            S.rng.draws = draws0
            S.rng.override = g
            run_once(W, cfg, S, like, boost, before, blobs)
        S.rng.override = None
    # the weighted posterior is unchanged, stored samples untouched
    ok, after = call(W, 'C14:posterior-no-raise',
                     lambda: S.posterior(return_blobs=blobs))
    if ok:
        same = len(after[1]) == len(before[1])
        if same:
            for k in range(len(before[1])):
                same = same and (ident(W, after[1][k], before[1][k])
                                 if W.symbolic else
                                 W.same(after[1][k], before[1][k]))
                same = same and (ident(W, after[2][k], before[2][k])
                                 if W.symbolic else
                                 W.same(after[2][k], before[2][k]))
        W.require(bool(same), 'C14:weighted-posterior-unchanged', '')
    for i in range(len(snap['points'])):
        rows = st.rows_of(S.points[i])
        good = len(rows) == len(snap['points'][i]) and all(
            all(ident(W, x, y) for x, y in zip(p, q))
            for p, q in zip(rows, snap['points'][i]))
        W.require(good, 'C14:stored-samples-untouched', 'shell %d' % i)


def run_once(W, cfg, S, like, boost, before, blobs):
    np = W.np
    pts0, lw0, ll0 = before[0], before[1], before[2]
    bl0 = before[3] if blobs else None
    n = len(lw0)
    draws_pre = S.rng.draws
    from .sampler_accessors import exp_guarded
    ok, post = exp_guarded(
        W, 'C14:equal-weight-no-raise', lambda: S.posterior(
            equal_weight=True, equal_weight_boost=boost, return_blobs=blobs),
        'posterior(equal_weight=True)', 'C14:exp-argument-cannot-overflow')
    if not ok:
        return
    pts, lw, ll = post[0], post[1], post[2]
    bl = post[3] if blobs else None
    m = len(lw)
    W.require(len(pts) == m and len(ll) == m and (bl is None or len(bl) == m),
              'C14:lengths', '')
    # one draw of n uniforms, the k-th belongs to sample k
    W.require(S.rng.draws == draws_pre + 1, 'C14:one-draw-of-n-uniforms',
              '%d generator calls' % (S.rng.draws - draws_pre))
    u = [S.rng.value_of(draws_pre, 'u', k) for k in range(n)]
    # order preserving: output rows are input rows, in order, row k repeated
    # c_k times (greedy matching by position)
    counts = [0] * n
    j = 0
    okorder = True
    if not W.symbolic:
        # rows are matched by value here: a model in which two stored
        # samples coincide cannot be attributed row by row
        for a in range(n):
            for b in range(a + 1, n):
                if row_same(W, pts0[a], ll0[a], None if bl0 is None else
                            bl0[a], pts0[b], ll0[b],
                            None if bl0 is None else bl0[b]):
                    raise world.ReplayMismatch(
                        'stored samples %d and %d coincide in this model'
                        % (a, b))
    for k in range(n):
        while j < m and row_same(W, pts[j], ll[j], None if bl is None else
                                 bl[j], pts0[k], ll0[k],
                                 None if bl0 is None else bl0[k]):
            counts[k] += 1
            j += 1
    okorder = (j == m)
    W.require(okorder, 'C14:rows-in-order-with-own-likelihood-and-blob',
              'matched %d of %d output rows' % (j, m))
    if not okorder:
        return
    # relative weights r_k = w_k / max(w) * boost (independent formula)
    finite = [k for k in range(n) if not st.is_neg_inf(lw0[k])]
    if not finite:
        return
    mx = lw0[finite[0]]
    for k in finite[1:]:
        if W.symbolic:
            from vlib.engine import sv_if
            mx = sv_if(lw0[k] > mx, lw0[k], mx)
        else:
            mx = max(mx, lw0[k])
    for k in range(n):
        if st.is_neg_inf(lw0[k]):
            W.require(counts[k] == 0, 'C14:zero-weight-never-drawn',
                      'sample %d' % k)
            continue
        if W.symbolic:
            import z3
            r = np.exp(lw0[k] - mx) * boost
            rt = r.t if isinstance(r, SV) else z3.RealVal(str(r))
            fl = z3.ToInt(rt)
            spec = fl + z3.If(u[k].t < rt - z3.ToReal(fl), 1, 0)
            W.require(SV(spec == counts[k]), 'C14:repeat-count',
                      'sample %d repeated %d times' % (k, counts[k]))
            if counts[k] >= 2:
                W.require(boost > 1, 'C14:no-repeat-for-boost-at-most-one',
                          'sample %d repeated %d times' % (k, counts[k]))
        else:
            r = math.exp(lw0[k] - mx) * boost
            fl = math.floor(r)
            frac = r - fl
            # skip draws within rounding distance of the threshold
            if abs(u[k] - frac) > 1e-9:
                spec = fl + (1 if u[k] < frac else 0)
                W.require(spec == counts[k], 'C14:repeat-count',
                          'sample %d repeated %d times, expected %d (r=%r '
                          'u=%r)' % (k, counts[k], spec, r, u[k]))
            if counts[k] >= 2:
                W.require(boost > 1, 'C14:no-repeat-for-boost-at-most-one',
                          'sample %d' % k)
    # equal, normalised weights
    if m > 0:
        eq = True
        for jj in range(1, m):
            eq = eq and (ident(W, lw[jj], lw[0]) if W.symbolic
                         else W.same(lw[jj], lw[0]))
        W.require(bool(eq), 'C14:weights-equal', '')
        A = W.alg()
        tot = None
        for jj in range(m):
            e = A.E(lw[jj])
            tot = e if tot is None else tot + e
        W.require_alg(A, A.eq(tot, A.num(1)), 'C14:weights-normalised', '')


def row_same(W, p, l, b, p0, l0, b0):
    if W.symbolic:
        okp = all(ident(W, p[c], p0[c]) for c in range(len(p0)))
        return okp and ident(W, l, l0) and (b0 is None or ident(W, b, b0))
    okp = all(W.same(p[c], p0[c]) for c in range(len(p0)))
    return bool(okp and W.same(l, l0) and (b0 is None or W.same(b, b0)))
