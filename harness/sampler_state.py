"""Arbitrary invariant-satisfying Sampler state (the common symbolic pre-state
of the sampler-level properties) and the invariant itself, written so that it
runs in both worlds."""
from vlib import world
from vlib.stubs import StubNautilusBound
from vlib.world import StubRNG

INF = float('inf')
NAN = float('nan')


# ---------------------------------------------------------------------------
# likelihood / prior stubs
# ---------------------------------------------------------------------------

class InjectedFault(RuntimeError):
    """a transient failure of the user's likelihood code"""


class Likelihood(object):
    """Pure function of the transformed point: L (real), Linf (is it -inf),
    Bl (blob) are uninterpreted functions of the coordinates.  Every call is
    logged (C10) and the argument checked to be what the prior returned."""

    def __init__(self, W, blobs=None, vectorized=False):
        self.W, self.blobs, self.vectorized = W, blobs, vectorized
        self.calls = []          # list of points (lists of scalars)
        self.fail_at = None      # index of the call that raises


    def value(self, x):
        W = self.W
        x = list(x)
        if W.concrete_bool(W.uf('Linf', x, 'bool')):
            return -INF
        return W.uf('L', x)

    def blob(self, x, k=0):
        return self.W.uf('Bl%d' % k, list(x))

    def one(self, x):
        if self.fail_at is not None and len(self.calls) == self.fail_at:
            raise InjectedFault('transient failure of the likelihood')
        x = [x[i] for i in range(len(x))]
        x = [v.item() if getattr(v, 'shape', None) == () and
             hasattr(v, 'item') else v for v in x]
        self.calls.append(x)
        ll = self.value(x)
        if self.blobs is None:
            return ll
        if self.blobs == 'scalar':
            return ll, self.blob(x)
        if self.blobs == 'two':
            return ll, self.blob(x, 0), self.blob(x, 1)
        if self.blobs == 'mixed':
            # an integer blob followed by a real one (heterogeneous kinds)
            return ll, self.W.uf('BlI', x, 'int'), self.blob(x, 1)
        if self.blobs == 'array':
            return ll, self.W.np.array([self.blob(x, 0), self.blob(x, 1)])
        raise ValueError(self.blobs)

    def __call__(self, arg):
        np = self.W.np
        if not self.vectorized:
            return self.one(arg)
        rows = [self.one(arg[k]) for k in range(len(arg))]
        if self.blobs is None:
            return np.array(rows, dtype=float) if rows else np.zeros(0)
        cols = list(zip(*rows))
        return tuple(np.array(list(c)) for c in cols)


class ClobberPrior(object):
    """Identity prior that overwrites its argument in place after computing
    the result (makes a missing np.copy visible)."""

    def __init__(self, W):
        self.W = W

    def __call__(self, x):
        np = self.W.np
        y = np.copy(x)
        x[...] = -7.0
        return y


# ---------------------------------------------------------------------------
# state
# ---------------------------------------------------------------------------

def lval(W, like, p, is_inf):
    """log-likelihood of a stored pre-state point (C03 part of the invariant:
    the stored value IS the likelihood of the stored point)."""
    x = list(p)
    W.assume(W.uf('Linf', x, 'bool') == is_inf)
    if is_inf:
        return -INF
    return W.uf('L', x)


def build(W, cfg):
    """cfg keys: m (points per shell), prov (provenance of transfer
    candidates, -1 = used), n_batch, n_live, explored, discard, end_exp,
    neg_inf ([[shell, row], ...]), blobs (None|'scalar'), vectorized,
    unroll."""
    np = W.np
    pkg = W.pkg
    d = cfg.get('n_dim', 2)
    m = cfg['m']
    B = len(m)
    explored = cfg.get('explored', False)
    discard = cfg.get('discard', False)
    StubNautilusBound.new_path(next_index=B, max_sample_calls=99)
    S = object.__new__(pkg.sampler.Sampler)
    rng = StubRNG(stream=1, draws=3)
    like = Likelihood(W, cfg.get('blobs'), cfg.get('vectorized', False))
    S.prior = ClobberPrior(W)
    S.likelihood = like
    S.n_dim = d
    S.n_live = cfg.get('n_live', 1)
    S.n_update = W.int('n_update')
    S.n_like_new_bound = W.int('n_like_new_bound')
    S.enlarge_per_dim = 1.1
    S.n_points_min = W.int('n_points_min')
    W.assume(S.n_points_min >= 1)
    S.split_threshold = 100
    S.periodic = None
    S.n_networks = 0
    S.neural_network_kwargs = {}
    S.vectorized = cfg.get('vectorized', False)
    S.pass_dict = False
    S.pool_l = None
    S.pool_s = None
    S.n_batch = cfg.get('n_batch', 1)
    S.rng = rng
    S.filepath = None
    if B == 0:
        S.n_like = 0          # a sampler without bounds has evaluated nothing
    else:
        S.n_like = W.int('n_like')
        W.assume(S.n_like >= 0)
    S.explored = explored
    S._discard_exploration = discard
    S.n_update_iter = W.int('n_update_iter')
    S.n_like_iter = W.int('n_like_iter')
    S.blobs_dtype = None

    bounds = []
    for i in range(B):
        if i == 0 and not (cfg.get('first_removed') and explored):
            bounds.append(pkg.basic.UnitCube.compute(d, rng=rng))
        else:
            bounds.append(StubNautilusBound(i, d, token=1))
            bounds[-1].rng = rng
    S.bounds = bounds

    neg = set(tuple(x) for x in cfg.get('neg_inf', []))
    S.points, S.log_l = [], []
    blobs = [] if cfg.get('blobs') and B > 0 else None
    for i in range(B):
        rows, ll, bl = [], [], []
        for j in range(m[i]):
            p = [W.real('p_%d_%d_%d' % (i, j, k)) for k in range(d)]
            rows.append(p)
            ll.append(lval(W, like, p, (i, j) in neg))
            if blobs is not None:
                bl.append(like.blob(p))
        S.points.append(np.array(rows, dtype=float) if rows
                        else np.zeros((0, d)))
        S.log_l.append(np.array(ll, dtype=float) if ll else np.zeros(0))
        if blobs is not None:
            blobs.append(np.array(bl, dtype=float) if bl else np.zeros(0))
    S.blobs = blobs
    if blobs is not None:
        S.blobs_dtype = np.dtype(float) if not W.symbolic else \
            np.dtype('float')

    # transfer candidates
    prov = cfg.get('prov', [])
    rows, ll, bl = [], [], []
    for k, s in enumerate(prov):
        q = [W.real('q_%d_%d' % (k, c)) for c in range(d)]
        rows.append(q)
        ll.append(lval(W, like, q, False))
        if blobs is not None:
            bl.append(like.blob(q))
    S.points_t = np.array(rows, dtype=float) if rows else np.zeros((0, d))
    S.shell_t = np.array(list(prov), dtype=int) if prov else \
        np.zeros(0, dtype=int)
    S.log_l_t = np.array(ll, dtype=float) if ll else np.zeros(0)
    S.blobs_t = None
    if blobs is not None:
        S.blobs_t = np.array(bl, dtype=float) if bl else np.zeros(0)

    # per-shell bookkeeping
    end_exp = cfg.get('end_exp', [0] * B)
    if explored:
        S.shell_end_exp = np.array(list(end_exp), dtype=int)
        nse = []
        for i in range(B):
            v = W.int('ns_exp_%d' % i)
            W.assume(v >= end_exp[i])
            nse.append(v)
        S.shell_n_sample_exp = np.array(nse, dtype=int)
    else:
        S.shell_end_exp = np.zeros(0, dtype=int)
        S.shell_n_sample_exp = np.zeros(0, dtype=int)
    ns = []
    for i in range(B):
        v = W.int('ns_%d' % i)
        if explored:
            # proposals after exploration cover the samples kept after it
            W.assume(v - S.shell_n_sample_exp[i] >= m[i] - end_exp[i])
        else:
            W.assume(v >= m[i])
        ns.append(v)
    S.shell_n_sample = np.array(ns, dtype=int)
    S.shell_n = np.zeros(B, dtype=int)
    S.shell_n_eff = np.zeros(B, dtype=float)
    S.shell_log_l = np.zeros(B, dtype=float)
    S.shell_log_v = np.zeros(B, dtype=float)
    # (first_removed: the empty unit-cube shell was dropped when exploration
    # ended, the first bound is a nautilus bound)
    lmin = [W.real('lmin_0') if cfg.get('first_removed') and explored
            else -INF] + [W.real('lmin_%d' % i) for i in range(1, B)]
    S.shell_log_l_min = np.array(lmin, dtype=float) if B > 0 else \
        np.zeros(0)
    # statistics are, by the invariant, what update_shell_info defines
    for i in range(B):
        S.update_shell_info(i)
    assume_c01(W, S, cfg)
    return S, like


def in_cube(W, p):
    c = True
    for x in p:
        c = world._and(c, world._and(x >= 0, x < 1))
    return c


def contains(W, S, k, p):
    """bound k contains point p (as a scalar truth value)."""
    if type(S.bounds[k]).__name__ == 'UnitCube':
        return in_cube(W, p)
    return S.bounds[k]._contains1(list(p))


def rows_of(a):
    return [[a[j][k] for k in range(a.shape[1])] for j in range(len(a))]


def assume_c01(W, S, cfg):
    B = len(S.bounds)
    for i in range(B):
        for p in rows_of(S.points[i]):
            W.assume(in_cube(W, p))
            W.assume(contains(W, S, i, p))
            for k in range(i + 1, B):
                W.assume(~contains(W, S, k, p) if W.symbolic
                         else not contains(W, S, k, p))
    if True:
        # (leftover candidates of an explored sampler keep their provenance)
        for q, s in zip(rows_of(S.points_t), cfg.get('prov', [])):
            W.assume(in_cube(W, q))
            if s < 0:
                continue
            if s > 0:
                W.assume(contains(W, S, s, q))
            W.assume(contains(W, S, B - 1, q))
            for k in range(s + 1, B - 1):
                W.assume(~contains(W, S, k, q) if W.symbolic
                         else not contains(W, S, k, q))


def neg(W, c):
    if isinstance(c, bool):
        return not c
    try:
        return ~c
    except TypeError:
        return not c


# ---------------------------------------------------------------------------
# invariant checks (post-state obligations)
# ---------------------------------------------------------------------------

def check_c01(W, S, tag=''):
    np = W.np
    B = len(S.bounds)
    for i in range(B):
        pts = rows_of(S.points[i])
        for j, p in enumerate(pts):
            W.require(in_cube(W, p), 'C01:in-cube' + tag,
                      'shell %d row %d' % (i, j))
            if i > 0 or type(S.bounds[0]).__name__ != 'UnitCube':
                W.require(contains(W, S, i, p), 'C01:own-bound' + tag,
                          'shell %d row %d' % (i, j))
            for k in range(i + 1, len(S.bounds)):
                W.require(neg(W, contains(W, S, k, p)),
                          'C01:not-in-later-bound' + tag,
                          'shell %d row %d bound %d' % (i, j, k))
        if len(pts) > 0:
            assoc = S.shell_association(S.points[i])
            for j in range(len(pts)):
                W.require(assoc[j] == i, 'C01:shell-association' + tag,
                          'shell %d row %d' % (i, j))
    if not S.explored:
        for k, q in enumerate(rows_of(S.points_t)):
            s = S.shell_t[k]
            s = W.concrete_int(s)
            if s < 0:
                continue
            W.require(in_cube(W, q), 'C01:transfer-in-cube' + tag, 'cand %d' % k)
            W.require(contains(W, S, B - 1, q), 'C01:transfer-in-newest' + tag,
                      'cand %d' % k)
            if s > 0:
                W.require(contains(W, S, s, q), 'C01:transfer-provenance' + tag,
                          'cand %d' % k)
            for kk in range(s + 1, B - 1):
                W.require(neg(W, contains(W, S, kk, q)),
                          'C01:transfer-provenance' + tag, 'cand %d' % k)


def check_alignment(W, S, tag=''):
    """C02/C03 structural part: arrays stay aligned."""
    B = len(S.bounds)
    ok = (len(S.points) == B and len(S.log_l) == B and
          (S.blobs is None or len(S.blobs) == B))
    for name in ['shell_n', 'shell_n_sample', 'shell_n_eff', 'shell_log_l',
                 'shell_log_v', 'shell_log_l_min']:
        ok = ok and len(getattr(S, name)) == B
    if S.explored:
        ok = ok and len(S.shell_end_exp) == B and \
            len(S.shell_n_sample_exp) == B
    if ok:
        for i in range(B):
            ok = ok and len(S.points[i]) == len(S.log_l[i]) and \
                S.points[i].ndim == 2 and S.log_l[i].ndim == 1
            if S.blobs is not None:
                ok = ok and len(S.blobs[i]) == len(S.points[i])
    ok = ok and len(S.points_t) == len(S.shell_t) == len(S.log_l_t)
    if S.blobs_t is not None:
        ok = ok and len(S.blobs_t) == len(S.points_t)
    W.require(bool(ok), 'C02:alignment' + tag, 'per-shell arrays misaligned')
    return bool(ok)


def check_c03_rows(W, S, like, tag=''):
    """every stored row carries the likelihood / blob of its own point."""
    for i in range(len(S.points)):
        pts = rows_of(S.points[i])
        for j, p in enumerate(pts):
            check_row(W, like, p, S.log_l[i][j],
                      None if S.blobs is None else S.blobs[i][j],
                      'C03:row-faithful' + tag, 'shell %d row %d' % (i, j))
    if not S.explored:
        for k, q in enumerate(rows_of(S.points_t)):
            check_row(W, like, q, S.log_l_t[k],
                      None if S.blobs_t is None else S.blobs_t[k],
                      'C03:transfer-row-faithful' + tag, 'cand %d' % k)


def is_neg_inf(v):
    try:
        return bool(v == -INF)
    except Exception:
        return False


def check_row(W, like, p, ll, blob, label, detail):
    x = list(p)
    if not W.symbolic:
        inf_here = W.uf('Linf', x, 'bool')
        lv = W.uf('L', x)
        if inf_here:
            W.require(is_neg_inf(ll), label, detail)
        else:
            W.require(W.same(ll, lv), label, detail)
    else:
        inf_here = W.uf('Linf', x, 'bool')
        lv = W.uf('L', x)
        if is_neg_inf(ll):
            W.require(inf_here, label, detail)
        else:
            W.require(world._and(neg(W, inf_here), ll == lv), label, detail)
    if blob is not None:
        if like.blobs == 'scalar':
            W.require(W.same(blob, like.blob(x)), label + '-blob', detail)
