"""C07 / C08 for the basic bound classes: the real sample / contains / compute
/ log_v on objects with symbolic fields; ellipsoid algebra discharged by
nlsat on the UF-free pool."""
import math

from vlib import world
from vlib.world import StubRNG
from .sampler_steps import call, ident
from .bound_io import sym_arr, make_ell, make_mix, make_cube


def assume_inverse(W, e):
    """B_inv * B = I (invariant of every Ellipsoid built by compute/read)"""
    np = W.np
    d = e.n_dim
    prod = np.einsum('ij,jk', e.B_inv, e.B)
    for i in range(d):
        for j in range(d):
            W.assume(prod[i][j] == (1.0 if i == j else 0.0) if W.symbolic
                     else abs(prod[i][j] - (1.0 if i == j else 0.0)) < 1e-9)


def cube(W, cfg):
    d, n = cfg['d'], cfg.get('n', 2)
    rng = StubRNG(stream=1, draws=0)
    c = make_cube(W, d, rng)
    ok, pts = call(W, 'C07:cube-sample-no-raise', lambda: c.sample(n))
    if not ok:
        return
    W.require(tuple(pts.shape) == (n, d), 'C07:sample-shape', str(pts.shape))
    ok, inb = call(W, 'C07:cube-contains-no-raise', lambda: c.contains(pts))
    if ok:
        for j in range(n):
            W.require(inb[j], 'C07:cube-sample-is-contained', 'row %d' % j)
    # contains <=> all coordinates in [0, 1)
    x = sym_arr(W, 'x', (d,))
    ok, r = call(W, 'C07:cube-contains-no-raise', lambda: c.contains(x))
    if ok:
        spec = True
        for k in range(d):
            spec = world._and(spec, world._and(x[k] >= 0, x[k] < 1))
        W.require(r == spec if W.symbolic else bool(r) == bool(spec),
                  'C07:cube-contains-is-unit-cube', '')
    W.require(W.same(c.log_v, 0), 'C08:cube-volume', '')


def ell_sample(W, cfg):
    """every point returned by the real Ellipsoid.sample satisfies the real
    Ellipsoid.contains (over the reals)"""
    d = cfg['d']
    rng = StubRNG(stream=1, draws=0)
    e = make_ell(W, d, rng)
    assume_inverse(W, e)
    ok, pts = call(W, 'C07:ellipsoid-sample-no-raise', lambda: e.sample(1))
    if not ok:
        return
    W.require(tuple(pts.shape) == (1, d), 'C07:sample-shape', str(pts.shape))
    # the normal draws are not all zero (probability one)
    g = [rng.value_of(0, 'g', k) for k in range(d)]
    nz = None
    for x in g:
        nz = (x * x) if nz is None else nz + x * x
    W.assume(nz > 0)
    ok, t = call(W, 'C07:ellipsoid-transform-no-raise',
                 lambda: e.transform(pts[0]))
    if not ok:
        return
    in_unit_ball(W, rng, 0, d, t, 'C07:ellipsoid-sample-is-contained')
    # and contains() is that test
    ok, c = call(W, 'C07:ellipsoid-contains-no-raise',
                 lambda: e.contains(pts[0]))
    if ok and W.symbolic:
        import z3
        from vlib.engine import SV, lift
        s = None
        for k in range(d):
            s = t[k] * t[k] if s is None else s + t[k] * t[k]
        W.require(c == (s < 1), 'C07:ellipsoid-contains-definition', '')
    elif ok:
        W.require(bool(c), 'C07:ellipsoid-sample-is-contained', 'numeric')


def in_unit_ball(W, rng, draw, d, t, label):
    """t = transform(sample point) has squared norm < 1, in two lemmas:
    (1) t equals the unit-ball point p = g/|g| * u^(1/d) the sample was made
    from (matrix identity B_inv B = I; sqrt and root are opaque atoms here);
    (2) |p|^2 < 1 from the defining equations of sqrt and root."""
    np = W.np
    g = np.array([rng.value_of(draw, 'g', k) for k in range(d)], dtype=float)
    u = rng.value_of(draw + 1, 'u', 0)
    p = g / np.sqrt(np.sum(g ** 2))
    p = p * u ** (1.0 / d)
    if W.symbolic:
        A1 = W.alg(roots=False)
        eqs = [A1.eq(A1.T(t[k]), A1.T(p[k])) for k in range(d)]
        W.require_alg(A1, A1.conj(eqs), label + ':frame',
                      'B_inv (B p + c - c) == p')
        A2 = W.alg()
        tot = None
        for k in range(d):
            v = A2.T(p[k])
            tot = v * v if tot is None else tot + v * v
        W.require_alg(A2, A2.lt(tot, A2.num(1)), label + ':radius',
                      '|g/|g| * u^(1/d)|^2 < 1')
    else:
        tot = sum(float(t[k]) ** 2 for k in range(d))
        W.require(tot < 1 + 1e-9, label, 'numeric')


class NpProxy(object):
    """symnp with the initial Khachiyan weights havocked"""

    def __init__(self, W, base):
        self._W, self._b = W, base

    def __getattr__(self, name):
        return getattr(self._b, name)

    def repeat(self, a, repeats, axis=None):
        W = self._W
        if W.symbolic and isinstance(a, float) and isinstance(repeats, int) \
                and repeats >= 1 and abs(a - 1.0 / repeats) < 1e-15:
            ws = [W.fresh('mvee_u') for _ in range(repeats)]
            tot = None
            for w in ws:
                W.assume(w > 0)
                tot = w if tot is None else tot + w
            W.assume(tot == 1)
            return self._b.array(ws, dtype=float)
        return self._b.repeat(a, repeats, axis=axis)


def ell_compute(W, cfg):
    """every construction point is contained in Ellipsoid.compute(points)
    for enlarge_per_dim > 1 (real MVEE tail with arbitrary weights, real
    compute, real contains; inverse / Cholesky by their defining equations)"""
    d, n = cfg['d'], cfg['n']
    np = W.np
    basic = W.pkg.basic
    pts = sym_arr(W, 'cp', (n, d))
    enlarge = W.real('enlarge')
    W.assume(enlarge > 1)
    rng = StubRNG(stream=1, draws=0)
    f = basic.minimum_volume_enclosing_ellipsoid
    old_defaults = f.__defaults__
    old_np = basic.np
    if W.symbolic:
        f.__defaults__ = (0, 20)          # skip the Khachiyan iterations
        basic.np = NpProxy(W, old_np)     # ... with arbitrary weights
    try:
        ok, e = call(W, 'C07:ellipsoid-compute-no-raise',
                     lambda: basic.Ellipsoid.compute(
                         pts, enlarge_per_dim=enlarge, rng=rng),
                     expected=())
    finally:
        f.__defaults__ = old_defaults
        basic.np = old_np
    if not ok:
        return
    A = W.alg()
    for k in range(n):
        ok, t = call(W, 'C07:ellipsoid-transform-no-raise',
                     lambda: e.transform(pts[k]))
        if not ok:
            return
        tot = None
        for c in range(d):
            v = A.T(t[c])
            tot = v * v if tot is None else tot + v * v
        W.require_alg(A, A.lt(tot, A.num(1)),
                      'C07:ellipsoid-encloses-construction-points',
                      'point %d' % k)


def ell_volume(W, cfg):
    """closed-form volume: slogdet of the matrix B (whose inverse contains()
    uses) plus the log-volume of the unit d-ball"""
    d = cfg['d']
    np = W.np
    rng = StubRNG(stream=1, draws=0)
    e = make_ell(W, d, rng)
    ok, lv = call(W, 'C08:ellipsoid-log_v-no-raise', lambda: e.log_v)
    if not ok:
        return
    sign, ld = np.linalg.slogdet(e.B)
    const = d * math.lgamma(1.5) - math.lgamma(d / 2.0 + 1)
    exp = ld + d * np.log(2.) + const
    W.require(W.same(lv, exp), 'C08:ellipsoid-volume-from-B', '')
    # the constant is log(pi^(d/2) / Gamma(d/2 + 1)), for the dimension dd
    dd = cfg.get('dd', d)
    const = dd * math.lgamma(1.5) - math.lgamma(dd / 2.0 + 1)
    unit_ball = (dd / 2.0) * math.log(math.pi) - math.lgamma(dd / 2.0 + 1)
    W.require(abs(dd * math.log(2.) + const - unit_ball) < 1e-12,
              'C08:unit-ball-constant', 'd=%d' % dd)


def mix_sample(W, cfg):
    pattern = cfg['pattern']
    d = len(pattern)
    rng = StubRNG(stream=1, draws=0)
    m = make_mix(W, pattern, rng)
    if m.ellipsoid is not None:
        assume_inverse(W, m.ellipsoid)
    ok, pts = call(W, 'C07:mixture-sample-no-raise', lambda: m.sample(1))
    if not ok:
        return
    W.require(tuple(pts.shape) == (1, d), 'C07:sample-shape', str(pts.shape))
    A = W.alg()
    for k in range(d):
        if pattern[k]:
            W.require(world._and(pts[0][k] >= 0, pts[0][k] < 1),
                      'C07:mixture-cube-coordinate-in-unit-interval',
                      'coordinate %d' % k)
    if m.ellipsoid is not None:
        de = m.ellipsoid.n_dim
        draw = 1 if any(pattern) else 0
        g = [rng.value_of(draw, 'g', k) for k in range(de)]
        nz = None
        for x in g:
            nz = (x * x) if nz is None else nz + x * x
        W.assume(nz > 0)
        idx = [k for k in range(d) if not pattern[k]]
        sub = W.np.array([pts[0][k] for k in idx], dtype=float)
        ok, t = call(W, 'C07:ellipsoid-transform-no-raise',
                     lambda: m.ellipsoid.transform(sub))
        if ok:
            in_unit_ball(W, rng, draw, de, t,
                         'C07:mixture-sample-in-ellipsoid-part')
    # contains = cube part AND ellipsoid part on the right columns
    x = sym_arr(W, 'x', (1, d))
    ok, c = call(W, 'C07:mixture-contains-no-raise', lambda: m.contains(x))
    if ok and W.symbolic:
        spec = True
        for k in range(d):
            if pattern[k]:
                spec = world._and(spec, world._and(x[0][k] >= 0, x[0][k] < 1))
        if m.ellipsoid is not None:
            idx = [k for k in range(d) if not pattern[k]]
            sub = W.np.array([[x[0][k] for k in idx]], dtype=float)
            spec = world._and(spec, m.ellipsoid.contains(sub)[0])
        W.require(c[0] == spec, 'C07:mixture-contains-definition', '')
