#!/bin/sh
# Build the overlay virtualenv (offline) that the checks run in.
# /venv holds the repository's own dependencies (numpy, scipy, sklearn, h5py);
# the overlay adds z3-solver and crosshair-tool from the offline wheelhouse.
set -e
cd "$(dirname "$0")"
V=.venv
if [ ! -x "$V/bin/python" ] || ! "$V/bin/python" -c "import z3, crosshair, numpy" 2>/dev/null; then
    rm -rf "$V"
    /venv/bin/python -m venv "$V"
    echo "import site; site.addsitedir('/venv/lib/python3.12/site-packages')" \
        > "$V/lib/python3.12/site-packages/_base.pth"
    PIP_NO_INDEX=1 "$V/bin/pip" install -q --no-index \
        --find-links /opt/veriftools/wheels z3-solver crosshair-tool
fi
"$V/bin/python" -c "import z3, crosshair, numpy, scipy, sklearn, h5py"
