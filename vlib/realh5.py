"""Counting proxies around the real h5py / pathlib / os used for the replay
of crash points (C06): the same operation kinds as the symh5 journal, counted
in the same order; at operation k the process exits abruptly (os._exit), like
a kill."""
import os
import pathlib

import h5py as _h5py

STATE = dict(count=0, kill_at=None, log=[], eager=False, files=[])


def reset(kill_at=None, eager=False):
    """eager: flush every open file after each operation (HDF5 may write
    through at any time; this is the 'api' durability model).  Otherwise the
    library default applies (changes are cached until close)."""
    STATE['count'] = 0
    STATE['kill_at'] = kill_at
    STATE['log'] = []
    STATE['eager'] = eager
    STATE['files'] = []


def _op(kind):
    """called BEFORE the k-th mutating operation is performed: journal
    position k means the first k operations completed."""
    if STATE['eager']:
        for f in STATE['files']:
            try:
                f.flush()
            except Exception:
                pass
    if STATE['kill_at'] is not None and STATE['count'] >= STATE['kill_at']:
        os._exit(77)
    STATE['count'] += 1
    STATE['log'].append(kind)


class Attrs(object):
    def __init__(self, a):
        self._a = a

    def __setitem__(self, k, v):
        _op('set_attr')
        self._a[k] = v

    def __getitem__(self, k):
        return self._a[k]

    def __contains__(self, k):
        return k in self._a

    def __iter__(self):
        return iter(self._a)

    def keys(self):
        return self._a.keys()


def _wrap(obj):
    if isinstance(obj, _h5py.Dataset):
        return Dataset(obj)
    if isinstance(obj, _h5py.Group):
        return Group(obj)
    return obj


class Group(object):
    def __init__(self, g):
        self._g = g
        self.attrs = Attrs(g.attrs)

    def create_group(self, name):
        _op('create_group')
        return Group(self._g.create_group(name))

    def create_dataset(self, name, **kw):
        _op('create_dataset')
        return Dataset(self._g.create_dataset(name, **kw))

    def __getitem__(self, name):
        return _wrap(self._g[name])

    def __contains__(self, name):
        return name in self._g

    def keys(self):
        return self._g.keys()


class Dataset(object):
    def __init__(self, d):
        self._d = d
        self.attrs = Attrs(d.attrs)

    @property
    def shape(self):
        return self._d.shape

    @property
    def dtype(self):
        return self._d.dtype

    def __len__(self):
        return len(self._d)

    def __array__(self, *a, **k):
        import numpy
        return numpy.array(self._d[...])

    def resize(self, shape, axis=None):
        _op('resize')
        self._d.resize(shape)

    def __setitem__(self, key, value):
        _op('write_ds')
        self._d[key] = value

    def __getitem__(self, key):
        return self._d[key]


class File(Group):
    def __init__(self, name, mode='r'):
        if mode in ('w', 'x', 'w-'):
            _op('create_file')
        elif mode == 'r+':
            _op('open_rw')
        self._f = _h5py.File(name, mode)
        if mode != 'r':
            STATE['files'].append(self._f)
        self._mode = mode
        Group.__init__(self, self._f)

    def close(self):
        if self._mode != 'r':
            _op('close_w')
            if self._f in STATE['files']:
                STATE['files'].remove(self._f)
        self._f.close()

    def __enter__(self):
        return self

    def __exit__(self, *a):
        self.close()
        return False


class _H5(object):
    File = File


h5py = _H5()


class Path(type(pathlib.Path())):
    def unlink(self, *a, **k):
        _op('unlink')
        return super().unlink(*a, **k)

    def mkdir(self, *a, **k):
        if not self.exists():
            _op('mkdir')
        return super().mkdir(*a, **k)


class _OS(object):
    path = os.path

    @staticmethod
    def replace(src, dst):
        _op('replace')
        return os.replace(src, dst)


os_mod = _OS()
