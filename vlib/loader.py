"""Load the real nautilus source from the working tree as a second package
(`nautilus_sym`) whose module globals are rebound to the symbolic shims.

No source file is copied or edited: the functions that run are compiled from
the files under $NAUTILUS_REPO/nautilus as they are now.  One AST rewrite is
applied (and reported): inside functions named `sample`, an assignment
`n_sample = <int literal>` (and the literal 1000 anywhere in such a function)
becomes `_SYMX_BLOCK` so that proposal blocks have 1-3 rows instead of 1000.
"""
import ast
import os
import sys
import types

REPO = os.environ.get('NAUTILUS_REPO', '/repo')

MODULES = ['prior', 'pool', 'neural', 'bounds.basic', 'bounds.periodic',
           'bounds.neural', 'bounds.union', 'bounds.nautilus', 'bounds',
           'sampler', '']


class _BlockRewriter(ast.NodeTransformer):
    def __init__(self, whole_module=False):
        self.rewrites = []
        # bounds/union.py and bounds/nautilus.py: the proposal loops may be
        # delegated to helpers of any name, the literals 1000 / 10000 have no
        # other use there
        self.whole = whole_module
        self.in_sample = whole_module

    def visit_FunctionDef(self, node):
        old = self.in_sample
        self.in_sample = self.whole or node.name == 'sample'
        self.generic_visit(node)
        self.in_sample = old
        return node

    def visit_Constant(self, node):
        # pool branch of NautilusBound.sample: at least 10000 points per
        # call -> a small number of rows
        if self.in_sample and node.value == 10000 and \
                isinstance(node.value, int):
            self.rewrites.append((node.lineno, node.value))
            return ast.copy_location(
                ast.Name(id='_SYMX_POOLMIN', ctx=ast.Load()), node)
        # the proposal block literal wherever it is used inside sample()
        # (robust against a renamed local or an inlined literal)
        if self.in_sample and node.value == 1000 and \
                isinstance(node.value, int) and \
                not isinstance(node.value, bool):
            self.rewrites.append((node.lineno, node.value))
            return ast.copy_location(
                ast.Name(id='_SYMX_BLOCK', ctx=ast.Load()), node)
        return node

    def visit_Assign(self, node):
        if (self.in_sample and len(node.targets) == 1 and
                isinstance(node.targets[0], ast.Name) and
                node.targets[0].id == 'n_sample' and
                isinstance(node.value, ast.Constant) and
                isinstance(node.value.value, int)):
            self.rewrites.append((node.lineno, node.value.value))
            node.value = ast.copy_location(
                ast.Name(id='_SYMX_BLOCK', ctx=ast.Load()), node.value)
            return node
        self.generic_visit(node)
        return node


class SymPackage(object):
    """The loaded package: attribute access gives the modules."""

    def __init__(self, pkgname, mods, rewrites, files):
        self.pkgname = pkgname
        self.mods = mods
        self.rewrites = rewrites
        self.files = files

    def __getattr__(self, name):
        try:
            return self.mods[name]
        except KeyError:
            raise AttributeError(name)


def _path(mod):
    p = os.path.join(REPO, 'nautilus', *mod.split('.')) if mod else \
        os.path.join(REPO, 'nautilus')
    if os.path.isdir(p):
        return os.path.join(p, '__init__.py')
    return p + '.py'


def load(pkgname, env, block=2):
    """Load all nautilus modules under package name `pkgname`.

    env: dict  name -> object, rebinding for *imported* names in every
    module (e.g. 'np', 'logsumexp', 'h5py', 'Path', 'time', ...).  Names that
    a module defines itself are never overwritten.
    """
    for k in [k for k in sys.modules if k == pkgname or
              k.startswith(pkgname + '.')]:
        del sys.modules[k]
    mods, rewrites, files = {}, [], []
    order = ['', 'bounds'] + [m for m in MODULES if m not in ('', 'bounds')]
    # create all module objects first so relative imports resolve
    for mod in order:
        full = pkgname + ('.' + mod if mod else '')
        m = types.ModuleType(full)
        m.__file__ = _path(mod)
        if mod in ('', 'bounds'):
            m.__path__ = [os.path.dirname(m.__file__)]
            m.__package__ = full
        else:
            m.__package__ = full.rsplit('.', 1)[0]
        sys.modules[full] = m
        mods[mod or '__init__'] = m
    # execute leaves before the packages that import from them
    for mod in MODULES:
        full = pkgname + ('.' + mod if mod else '')
        m = sys.modules[full]
        src = open(m.__file__).read()
        files.append(m.__file__)
        tree = ast.parse(src, m.__file__)
        rw = _BlockRewriter(whole_module=_leaf(mod) in ('union', 'nautilus'))
        tree = rw.visit(tree)
        ast.fix_missing_locations(tree)
        rewrites.extend((m.__file__, ln, v) for ln, v in rw.rewrites)
        code = compile(tree, m.__file__, 'exec')
        m.__dict__['_SYMX_POOLMIN'] = 1
        m.__dict__['_SYMX_BLOCK'] = block.get(_leaf(mod), block.get(
            '*', 2)) if isinstance(block, dict) else block
        exec(code, m.__dict__)
        # rebind imported names: env['*'] for every module, env[<leaf module
        # name>] for one module only
        leaf = _leaf(mod)
        for scope in ('*', leaf):
            for name, obj in env.get(scope, {}).items():
                if name in m.__dict__ and not _defined_here(m, name):
                    m.__dict__[name] = obj
        # attach submodule to parent package
        if mod and '.' in mod:
            parent, leaf = mod.rsplit('.', 1)
            setattr(sys.modules[pkgname + '.' + parent], leaf, m)
        elif mod:
            setattr(sys.modules[pkgname], mod, m)
    short = {_leaf(k) if k != '__init__' else k: v for k, v in mods.items()}
    short['bounds'] = mods['bounds']
    return SymPackage(pkgname, short, rewrites, files)


def _leaf(mod):
    if not mod:
        return '__init__'
    if mod == 'bounds.neural':
        return 'neural_bound'
    return mod.split('.')[-1]


def _defined_here(m, name):
    obj = m.__dict__[name]
    return getattr(obj, '__module__', None) == m.__name__ and \
        isinstance(obj, (type, types.FunctionType))


def load_real():
    """The unmodified package with real numpy (for replay / validation)."""
    if REPO not in sys.path:
        sys.path.insert(0, REPO)
    for k in [k for k in sys.modules if k == 'nautilus' or
              k.startswith('nautilus.')]:
        if not getattr(sys.modules[k], '__file__', '').startswith(REPO):
            del sys.modules[k]
    import nautilus
    import nautilus.bounds.basic, nautilus.bounds.union  # noqa
    import nautilus.bounds.nautilus, nautilus.bounds.neural  # noqa
    import nautilus.bounds.periodic, nautilus.neural, nautilus.prior  # noqa
    import nautilus.sampler, nautilus.pool  # noqa
    assert nautilus.__file__.startswith(REPO), nautilus.__file__
    mods = dict(__init__=nautilus, sampler=nautilus.sampler,
                prior=nautilus.prior, pool=nautilus.pool,
                neural=nautilus.neural, bounds=nautilus.bounds,
                basic=nautilus.bounds.basic, union=nautilus.bounds.union,
                nautilus=nautilus.bounds.nautilus,
                periodic=nautilus.bounds.periodic)
    mods['neural_bound'] = nautilus.bounds.neural
    return SymPackage('nautilus', mods, [], [])
