"""fpx: AST -> SMT translation of straight-line numpy float64 arithmetic.

The body of a method (here PhaseShift.transform / the centre expression of
PhaseShift.compute) is re-read from the working tree and interpreted over an
abstract domain for ONE generic periodic coordinate:

  FPDomain   IEEE-754 binary64 terms (z3 QF_FP), round-to-nearest-even,
             numpy's float `%` = exact fmod via roundToIntegral(RTZ) followed
             by the sign fix-up of npy_divmod (mod += b), result of that
             addition rounded.
  ErrDomain  mathematical reals with one error variable per rounding
             (|e| <= 2^-53 * bound on the magnitude), `% 1` = x - floor(x).
  NumDomain  numpy float64 itself (validation of the translator).

Anything outside the handled subset raises NotModelled (-> INCONCLUSIVE).
"""
import ast
import inspect
import textwrap

import z3

from .engine import NotModelled


class Arr(object):
    """abstract 2-d array: value of the generic periodic column."""

    def __init__(self, col):
        self.col = col


class ColView(object):
    """`name = arr[:, dim]`: a view of the generic periodic column (writes
    through `name[mask] = v` land in the array)."""

    def __init__(self, arr):
        self.arr = arr


class Domain(object):
    def const(self, v):
        raise NotImplementedError


class FPDomain(Domain):
    def __init__(self):
        self.S = z3.Float64()
        self.rm = z3.RNE()
        self.side = []

    def var(self, name):
        return z3.FP(name, self.S)

    def const(self, v):
        return z3.FPVal(float(v), self.S)

    def lift(self, v):
        if isinstance(v, (int, float)):
            return self.const(v)
        return v

    def add(self, a, b): return z3.fpAdd(self.rm, self.lift(a), self.lift(b))
    def sub(self, a, b): return z3.fpSub(self.rm, self.lift(a), self.lift(b))
    def mul(self, a, b): return z3.fpMul(self.rm, self.lift(a), self.lift(b))
    def div(self, a, b): return z3.fpDiv(self.rm, self.lift(a), self.lift(b))
    def neg(self, a): return z3.fpNeg(self.lift(a))

    def mod(self, a, b):
        if not (isinstance(b, (int, float)) and float(b) == 1.0):
            raise NotModelled('float modulo by %r' % (b,))
        a = self.lift(a)
        one = self.const(1.0)
        fm = z3.fpSub(self.rm, a, z3.fpRoundToIntegral(z3.RTZ(), a))
        neg = z3.fpLT(fm, self.const(0.0))
        # npy_divmod: if mod != 0 and sign differs from divisor: mod += b;
        # if mod == 0: copysign(0, b) = +0.0
        return z3.If(z3.fpIsZero(fm), self.const(0.0),
                     z3.If(neg, z3.fpAdd(self.rm, fm, one), fm))

    def cmp(self, op, a, b):
        a, b = self.lift(a), self.lift(b)
        return {'==': z3.fpEQ, '<': z3.fpLT, '<=': z3.fpLEQ, '>': z3.fpGT,
                '>=': z3.fpGEQ, '!=': lambda x, y: z3.Not(z3.fpEQ(x, y))}[op](a, b)

    def ite(self, c, a, b):
        return z3.If(c, self.lift(a), self.lift(b))

    def in_unit(self, v):
        return z3.And(z3.fpGEQ(v, self.const(0.0)), z3.fpLT(v, self.const(1.0)))


class ErrDomain(Domain):
    """reals + bounded rounding errors.  `mag` bounds the magnitude of every
    intermediate (checked by the caller's preconditions: inputs in [0,1))."""

    def __init__(self, mag=4.0):
        self.n = 0
        self.side = []
        self.u = z3.RealVal(1) / (2 ** 53)
        self.mag = mag

    def var(self, name):
        return z3.Real(name)

    def const(self, v):
        from fractions import Fraction
        return z3.RealVal(str(Fraction(float(v))))

    def lift(self, v):
        if isinstance(v, (int, float)):
            return self.const(v)
        return v

    def _round(self, exact):
        self.n += 1
        e = z3.Real('eps!%d' % self.n)
        b = self.u * z3.RealVal(str(self.mag))
        self.side.append(z3.And(e >= -b, e <= b))
        return exact + e

    def add(self, a, b): return self._round(self.lift(a) + self.lift(b))
    def sub(self, a, b): return self._round(self.lift(a) - self.lift(b))

    def mul(self, a, b):
        if isinstance(a, (int, float)) and abs(a) == 1:
            return self.lift(b) * int(a)        # exact
        if isinstance(b, (int, float)) and abs(b) == 1:
            return self.lift(a) * int(b)
        return self._round(self.lift(a) * self.lift(b))

    def neg(self, a): return -self.lift(a)

    def mod(self, a, b):
        if not (isinstance(b, (int, float)) and float(b) == 1.0):
            raise NotModelled('float modulo by %r' % (b,))
        a = self.lift(a)
        fl = z3.ToReal(z3.ToInt(a))
        frac = a - fl                      # in [0, 1)
        # a >= 0: exact fmod.  a < 0: fmod(a) = frac - 1 (exact, negative,
        # unless frac == 0), then the rounded addition of 1.
        neg_branch = z3.And(a < 0, frac != 0)
        self.n += 1
        e = z3.Real('eps!%d' % self.n)
        self.side.append(z3.And(e >= -self.u, e <= self.u))
        # the rounded sum of (frac-1)+1 lies in [0, 1] (monotone rounding)
        r = frac + e
        self.side.append(z3.Implies(neg_branch, z3.And(r >= 0, r <= 1)))
        return z3.If(neg_branch, r, frac)

    def cmp(self, op, a, b):
        a, b = self.lift(a), self.lift(b)
        return {'==': a == b, '<': a < b, '<=': a <= b, '>': a > b,
                '>=': a >= b, '!=': a != b}[op]

    def ite(self, c, a, b):
        return z3.If(c, self.lift(a), self.lift(b))


class NumDomain(Domain):
    def __init__(self):
        import numpy
        self.np = numpy

    def lift(self, v):
        return v

    def add(self, a, b): return a + b
    def sub(self, a, b): return a - b
    def mul(self, a, b): return a * b
    def div(self, a, b): return a / b
    def neg(self, a): return -a
    def mod(self, a, b): return a % b

    def cmp(self, op, a, b):
        return {'==': a == b, '<': a < b, '<=': a <= b, '>': a > b,
                '>=': a >= b, '!=': a != b}[op]

    def ite(self, c, a, b):
        return self.np.where(c, a, b)


# ---------------------------------------------------------------------------
# the interpreter
# ---------------------------------------------------------------------------

class _Return(Exception):
    def __init__(self, v):
        self.v = v


class Interp(object):
    def __init__(self, dom, env):
        self.d = dom
        self.env = env
        self.ops = 0

    def run(self, fn_node):
        try:
            for st in fn_node.body:
                self.stmt(st)
        except _Return as r:
            return r.v
        return None

    # statements
    def stmt(self, n):
        if isinstance(n, ast.Expr) and isinstance(n.value, ast.Constant):
            return                      # docstring
        if isinstance(n, ast.Assign):
            if len(n.targets) != 1:
                raise NotModelled('multiple assignment targets')
            if isinstance(n.targets[0], ast.Name) and \
                    isinstance(n.value, ast.Subscript):
                base = self.expr(n.value.value)
                if isinstance(base, Arr) and self._is_col(n.value.slice):
                    self.env[n.targets[0].id] = ColView(base)
                    return
            v = self.expr(n.value)
            self.assign(n.targets[0], v)
            return
        if isinstance(n, ast.AugAssign):
            cur = self.expr(n.target)
            v = self.binop(type(n.op), cur, self.expr(n.value))
            self.assign(n.target, v)
            return
        if isinstance(n, ast.For):
            it = n.iter
            if not (isinstance(it, ast.Call) and
                    isinstance(it.func, ast.Name) and
                    it.func.id == 'enumerate' and len(it.args) == 1 and
                    ast.unparse(it.args[0]) == 'self.periodic'):
                raise NotModelled('loop over %s' % ast.unparse(it))
            tgt = n.target
            if not (isinstance(tgt, ast.Tuple) and len(tgt.elts) == 2):
                raise NotModelled('loop target')
            self.env[tgt.elts[0].id] = ('index',)
            self.env[tgt.elts[1].id] = ('dim',)
            for st in n.body:          # one generic periodic coordinate
                self.stmt(st)
            if n.orelse:
                raise NotModelled('for-else')
            return
        if isinstance(n, ast.Return):
            raise _Return(self.expr(n.value))
        if isinstance(n, ast.If):
            c = self.expr(n.test)
            if not isinstance(c, bool):
                raise NotModelled('symbolic if statement')
            for st in (n.body if c else n.orelse):
                self.stmt(st)
            return
        raise NotModelled('statement %s' % type(n).__name__)

    def assign(self, tgt, v):
        if isinstance(tgt, ast.Name):
            self.env[tgt.id] = v
            return
        if isinstance(tgt, ast.Subscript) and \
                isinstance(tgt.value, ast.Name) and \
                isinstance(self.env.get(tgt.value.id), ColView):
            # masked write through a column view
            arr = self.env[tgt.value.id].arr
            mask = self.expr(tgt.slice)
            new = v if not isinstance(v, Arr) else v.col
            if isinstance(mask, bool):
                if mask:
                    arr.col = new
            else:
                arr.col = self.d.ite(mask, new, arr.col)
            return
        if isinstance(tgt, ast.Subscript):
            arr = self.expr(tgt.value)
            if isinstance(arr, Arr) and self._is_col(tgt.slice):
                arr.col = v if not isinstance(v, Arr) else v.col
                return
        raise NotModelled('assignment to %s' % ast.unparse(tgt))

    def _is_col(self, sl):
        if isinstance(sl, ast.Tuple) and len(sl.elts) == 2:
            a, b = sl.elts
            is_all = (isinstance(a, ast.Slice) and a.lower is None and
                      a.upper is None) or (isinstance(a, ast.Constant) and
                                           a.value is Ellipsis)
            return is_all and self.expr(b) == ('dim',)
        return False

    # expressions
    def expr(self, n):
        d = self.d
        if not isinstance(n, (ast.Constant, ast.Name)):
            src = ast.unparse(n)
            if src in self.env:
                return self.env[src]
        if isinstance(n, ast.Constant):
            if isinstance(n.value, (int, float, bool)):
                return n.value
            raise NotModelled('constant %r' % (n.value,))
        if isinstance(n, ast.Name):
            if n.id not in self.env:
                raise NotModelled('name %s' % n.id)
            if isinstance(self.env[n.id], ColView):
                return self.env[n.id].arr.col
            return self.env[n.id]
        if isinstance(n, ast.Attribute):
            src = ast.unparse(n)
            if src in self.env:
                return self.env[src]
            raise NotModelled('attribute %s' % src)
        if isinstance(n, ast.Subscript):
            base = self.expr(n.value)
            if isinstance(base, Arr) and self._is_col(n.slice):
                return base.col
            if isinstance(base, tuple) and base and base[0] == 'centers':
                if self.expr(n.slice) == ('index',):
                    return base[1]
            raise NotModelled('subscript %s' % ast.unparse(n))
        if isinstance(n, ast.UnaryOp):
            v = self.expr(n.operand)
            if isinstance(n.op, ast.USub):
                return -v if isinstance(v, (int, float)) else d.neg(v)
            if isinstance(n.op, ast.UAdd):
                return v
            if isinstance(n.op, ast.Not) and isinstance(v, bool):
                return not v
            raise NotModelled('unary %s' % type(n.op).__name__)
        if isinstance(n, ast.BinOp):
            return self.binop(type(n.op), self.expr(n.left),
                              self.expr(n.right))
        if isinstance(n, ast.IfExp):
            c = self.expr(n.test)
            if isinstance(c, bool):
                return self.expr(n.body if c else n.orelse)
            return d.ite(c, self.expr(n.body), self.expr(n.orelse))
        if isinstance(n, ast.Compare):
            if len(n.ops) != 1:
                raise NotModelled('chained comparison')
            a, b = self.expr(n.left), self.expr(n.comparators[0])
            op = {ast.Eq: '==', ast.Lt: '<', ast.LtE: '<=', ast.Gt: '>',
                  ast.GtE: '>=', ast.NotEq: '!='}.get(type(n.ops[0]))
            if op is None:
                raise NotModelled('comparison')
            if isinstance(a, (int, float)) and isinstance(b, (int, float)):
                return eval('a %s b' % op)
            return d.cmp(op, a, b)
        if isinstance(n, ast.Call):
            f = ast.unparse(n.func)
            args = [self.expr(a) for a in n.args]
            if f == 'np.copy' and len(args) == 1 and isinstance(args[0], Arr):
                return Arr(args[0].col)
            if f == 'np.where' and len(args) == 3:
                return d.ite(*args)
            if f in ('np.mod', 'np.remainder') and len(args) == 2:
                return d.mod(*args)
            if f == 'np.zeros_like' or f == 'np.empty_like':
                raise NotModelled(f)
            raise NotModelled('call %s' % f)
        raise NotModelled('expression %s' % type(n).__name__)

    def binop(self, op, a, b):
        d = self.d
        self.ops += 1
        if isinstance(a, (int, float)) and isinstance(b, (int, float)):
            return {ast.Add: a + b, ast.Sub: a - b, ast.Mult: a * b}.get(
                op) if op in (ast.Add, ast.Sub, ast.Mult) else \
                self._pybin(op, a, b)
        if op is ast.Add:
            return d.add(a, b)
        if op is ast.Sub:
            return d.sub(a, b)
        if op is ast.Mult:
            # int * float: numpy converts the int exactly
            return d.mul(a, b)
        if op is ast.Div:
            return d.div(a, b)
        if op is ast.Mod:
            return d.mod(a, b)
        raise NotModelled('operator %s' % op.__name__)

    def _pybin(self, op, a, b):
        if op is ast.Div:
            return a / b
        if op is ast.Mod:
            return a % b
        raise NotModelled('constant operator')


def method_ast(cls, name):
    src = textwrap.dedent(inspect.getsource(getattr(cls, name)))
    tree = ast.parse(src)
    fn = tree.body[0]
    if isinstance(fn, ast.FunctionDef) and fn.decorator_list:
        pass
    return fn, src


def run_transform(fn_node, dom, x, c, inverse):
    """value of the generic periodic coordinate after transform()."""
    arr = Arr(x)
    env = {'points': arr, 'inverse': inverse,
           'self.centers': ('centers', c), 'self.periodic': ('periodic',)}
    it = Interp(dom, env)
    res = it.run(fn_node)
    if not isinstance(res, Arr):
        raise NotModelled('transform does not return the point array')
    return res.col, it.ops
