"""./check <property-id> [quick|thorough] [--replay file]

Runs the registered check of one property against /repo's working tree,
writes evidence/<id>.json, prints VIOLATION / KNOWN-FINDING lines.
Exit codes: 0 property held on everything explored (or only known findings),
1 violation reproduced on the real code, 3 harness error."""
import importlib
import json
import os
import sys
import time

HERE = os.path.dirname(os.path.dirname(os.path.abspath(__file__)))
sys.path.insert(0, HERE)

from vlib import runner  # noqa


def load_known():
    p = os.path.join(HERE, 'known_findings.json')
    if not os.path.exists(p):
        return []
    return json.load(open(p)).get('known', [])


def match_known(pid, v, known):
    for k in known:
        if k.get('property') != pid:
            continue
        if k.get('label') and k['label'] != v.get('label'):
            continue
        if k.get('harness') and k['harness'] != v.get('harness'):
            continue
        if k.get('detail_contains') and \
                k['detail_contains'] not in (v.get('detail') or ''):
            continue
        return k
    return None


def aggregate(pid, tier, seed, results, meta, wall):
    cov = dict(evaluations=0, distinct_nontrivial=0, obligations=0,
               discharged=0, traces_validated_against_impl=0)
    tot = dict(paths=0, completed=0, cut=0, aborted=0, notmodelled=0,
               decisions=0, forks=0, q_sat=0, q_unsat=0, q_unknown=0,
               solver_s=0.0, inconclusive=0, budget_exhausted=0)
    samples, notes, labels = [], [], {}
    entered = set()
    violations, spurious, crashed, valprob = [], [], [], []
    rewrites = set()
    per_job = []
    for r in results:
        if 'crashed' in r:
            crashed.append(dict(name=r['name'], error=r['crashed'][-1500:]))
            continue
        for k in tot:
            tot[k] += r.get(k, 0)
        cov['evaluations'] += r.get('completed', 0) + r.get('cut', 0)
        cov['distinct_nontrivial'] += r.get('nontrivial', 0)
        cov['obligations'] += r.get('obligations', 0)
        cov['discharged'] += r.get('discharged', 0)
        cov['traces_validated_against_impl'] += r.get('validated', 0)
        for s in r.get('samples', [])[:1]:
            if len(samples) < 12:
                samples.append(dict(job=r['name'], **s))
        for s in r.get('extra_samples', []):
            if len(samples) < 16:
                samples.append(s)
        notes.extend(r.get('notes', []))
        entered.update(r.get('functions_entered', []))
        for lab, (n, d) in r.get('labels', {}).items():
            a = labels.setdefault(lab, [0, 0])
            a[0] += n
            a[1] += d
        violations.extend(r.get('violations', []))
        spurious.extend(r.get('spurious', []))
        for p in r.get('validation_problems', []):
            if p and p[0] == 'mismatch':
                cov['validation_runs_diverged'] = cov.get(
                    'validation_runs_diverged', 0) + 1
            else:
                valprob.append([r['name']] + p)
        for rw in r.get('rewrites', []):
            rewrites.add(tuple(rw))
        per_job.append(dict(name=r['name'], paths=r.get('paths'),
                            cut=r.get('cut'), obligations=r.get('obligations'),
                            discharged=r.get('discharged'),
                            wall_s=round(r.get('wall_s', 0), 2)))
    # reachability guard: a job (with the sub-jobs it was split into) that
    # discharged no obligation at all checked nothing
    fam = {}
    for r in results:
        if 'crashed' in r:
            continue
        base = r['name'].split(' [below prefix', 1)[0]
        fam[base] = fam.get(base, 0) + r.get('obligations', 0)
    vacuous = sorted(k for k, v in fam.items() if v == 0)
    cov['vacuous_jobs'] = vacuous
    cov.update(
        rule='one evaluation = one feasible path of the real code explored '
             'symbolically (completed or cut at the stated bound); '
             'non-trivial = completed path with at least one symbolic '
             'decision and at least one obligation discharged by the solver; '
             'paths are distinct by construction (distinct decision '
             'sequences)',
        samples=samples or [dict(note='no path sample recorded')],
        explanation=meta.get('explanation', ''),
        bounds=meta.get('bounds', {}),
        functions_encoded=meta.get('functions', []),
        functions_entered_measured=sorted(entered),
        stubs=meta.get('stubs', []),
        outside_claim=meta.get('outside', []),
        engine=tot, obligations_by_label=labels,
        ast_rewrites=[list(x) for x in sorted(rewrites)],
        not_modelled_or_inconclusive=sorted(set(notes))[:40],
        spurious_candidates=[dict(label=s['label'], detail=s['detail'],
                                  replay=s['replay_status'],
                                  why=s.get('replay_failures'))
                             for s in spurious][:20],
        validation_problems=valprob[:20],
        crashed_jobs=crashed, jobs=per_job)
    ev = dict(property_id=pid, tier=tier, seed=seed, level='other',
              coverage=cov, assumptions=meta.get('assumptions', []),
              wall_s=round(wall, 2), violations=len(violations))
    return ev, violations, spurious, crashed, notes, valprob


def main(argv):
    if len(argv) < 1:
        print(__doc__)
        return 3
    pid = argv[0]
    tier = os.environ.get('VERIF_TIER', 'quick')
    replay = None
    rest = argv[1:]
    while rest:
        a = rest.pop(0)
        if a in ('quick', 'thorough'):
            tier = a
        elif a == '--replay':
            replay = rest.pop(0)
    seed = int(os.environ.get('VERIF_SEED', '0') or 0)
    mod = importlib.import_module('checks.%s' % pid.lower())
    if replay:
        return mod.replay(replay) if hasattr(mod, 'replay') else \
            generic_replay(replay)
    t0 = time.time()
    jobs = mod.jobs(tier)
    results = runner.run_jobs(jobs, seed=seed) if jobs else []
    if hasattr(mod, 'extra'):
        results.extend(mod.extra(tier, seed))
    meta = mod.META
    ev, violations, spurious, crashed, notes, valprob = aggregate(
        pid, tier, seed, results, meta, time.time() - t0)
    known = load_known()
    EVD = os.environ.get('VERIF_EVIDENCE_DIR') or os.path.join(HERE,
                                                                'evidence')
    os.makedirs(EVD, exist_ok=True)
    rc = 0
    new_v, known_hit = [], {}
    from checks.common import relevant
    other = [v for v in violations
             if not relevant(pid, v['label'], v.get('detail'))]
    violations = [v for v in violations
                  if relevant(pid, v['label'], v.get('detail'))]
    ev['coverage']['other_property_failures'] = sorted(set(
        v['label'] for v in other))
    for lab in ev['coverage']['other_property_failures'][:10]:
        print('OTHER-PROPERTY: obligation %s failed in a shared harness; it '
              'is not a clause of %s (see the check of %s)' % (
                  lab, pid, lab.split(':', 1)[0]))
    for v in violations:
        k = match_known(pid, v, known)
        if k is not None:
            known_hit[k['id']] = k
        else:
            new_v.append(v)
    ev['coverage']['known_findings_reproduced'] = sorted(known_hit)
    ev['coverage']['known_finding_instances'] = len(violations) - len(new_v)
    # `violations` counts what the check reports as VIOLATION (instances of
    # a listed known finding are counted above, not here)
    ev['violations'] = len(new_v)
    with open(os.path.join(EVD, '%s.json' % pid), 'w') as f:
        json.dump(ev, f, indent=1, default=str)
    for k in known_hit.values():
        print('KNOWN-FINDING: property=%s %s' % (pid, k['what']))
    rdir = os.path.join(EVD, 'replays')
    seen = set()
    for i, v in enumerate(new_v):
        key = (v['label'], v['harness'],
               (v.get('detail') or '').rsplit('window=', 1)[-1]
               if 'window=' in (v.get('detail') or '') else '')
        if key in seen:
            continue
        seen.add(key)
        os.makedirs(rdir, exist_ok=True)
        path = os.path.join(rdir, '%s_%d.json' % (pid, len(seen)))
        v = dict(v, property=pid)
        with open(path, 'w') as f:
            json.dump(v, f, indent=1, default=str)
        print('VIOLATION property=%s replay=%s' % (pid, path))
        print('  obligation %s failed: %s' % (v['label'], v['detail']))
        rc = 1
    c = ev['coverage']
    print('%s %s: %d paths (%d cut), %d/%d obligations discharged, '
          '%d validated against the implementation, solver %.1fs, wall %.1fs'
          % (pid, tier, c['evaluations'], c['engine']['cut'],
             c['discharged'], c['obligations'],
             c['traces_validated_against_impl'], c['engine']['solver_s'],
             ev['wall_s']))
    for s in spurious[:10]:
        print('SPURIOUS: %s %s (replay: %s %s)' % (
            s['label'], s['detail'], s['replay_status'],
            s.get('replay_failures')))
    for n in sorted(set(notes))[:10]:
        if not n.startswith('NOTE'):
            print(n)
    for p in valprob[:5]:
        print('VALIDATION-PROBLEM:', p)
    if ev['coverage']['vacuous_jobs']:
        for v in ev['coverage']['vacuous_jobs'][:5]:
            print('HARNESS-ERROR: no obligation was reached (every path cut '
                  'or aborted): %s' % v)
        return 3 if rc == 0 else rc
    if crashed:
        for cr in crashed[:3]:
            print('HARNESS-ERROR: job crashed: %s\n%s' % (cr['name'],
                                                          cr['error']))
        return 3 if rc == 0 else rc
    return rc


def generic_replay(path):
    v = json.load(open(path))
    job = runner.Job(v['harness'], v['cfg'], block=v.get('block', 2),
                     pkg_key=v.get('pkg_key', 'default'))
    status, fails = runner.run_concrete(job, v['model'])
    print('replay of %s on the real code: %s' % (v['label'], status))
    for f in fails[:10]:
        print('  ', f)
    if status == 'failed':
        print('VIOLATION property=%s replay=%s' % (
            v.get('property') or os.path.basename(path).split('_')[0].upper(),
            path))
        return 1
    return 0


if __name__ == '__main__':
    sys.exit(main(sys.argv[1:]))
