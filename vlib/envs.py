"""Package flavours: which names are rebound in which module, for the symbolic
package and for the concrete (replay / validation) package.  The concrete
package is the same source with real numpy / scipy; only the environment
stubs that the harness also uses symbolically are rebound (and the proposal
block literal, see loader)."""
from . import world
from . import loader
from . import stubs

_REAL = {}


def _sampler_env():
    return {'sampler': {'NautilusBound': stubs.StubNautilusBound,
                        'h5py': stubs.h5py_proxy, 'Path': stubs.path_proxy,
                        'os': stubs.os_proxy},
            'prior': {'uniform': stubs.uniform_stub}}


def _default_env():
    return {'prior': {'uniform': stubs.uniform_stub}}


def _bounds_env():
    """bound-level harnesses: members of Union / NautilusBound are the real
    classes or stubs chosen by the harness through class attributes; sklearn,
    scipy.optimize and LAPACK are stubs."""
    return {
        'union': {'GaussianMixture': stubs.GaussianMixtureStub,
                  'multivariate_normal': stubs.MultivariateNormalStub,
                  'minimize': stubs.minimize_stub},
        'neural': {'MLPRegressor': stubs.MLPRegressorStub},
    }


ENVS = {'default': _default_env, 'sampler': _sampler_env,
        'bounds': _bounds_env}


def real_env(key):
    env = {'*': {'threadpool_limits': world.threadpool_limits_stub,
                 'warn': world.warn_stub}}
    extra = ENVS[key]()
    if key == 'sampler':
        from . import realh5
        env['sampler'] = {'NautilusBound': stubs.StubNautilusBound,
                          'time': world.time_stub,
                          'get_terminal_size': world.get_terminal_size_stub,
                          'h5py': realh5.h5py, 'Path': realh5.Path,
                          'os': realh5.os_mod}
    elif key == 'bounds':
        env.update(extra)
        import numpy

        class _NP(object):
            """numpy with the generator constructors of the harness world
            (worker generators must be the stub streams in a replay)"""
            random = world._RandomNS()

            def __getattr__(self, name):
                return getattr(numpy, name)
        env['nautilus'] = {'np': _NP()}
    return env


def real_package(key, block):
    bk = tuple(sorted(block.items())) if isinstance(block, dict) else block
    ck = (key, bk)
    if ck not in _REAL:
        _REAL[ck] = loader.load('nautilus_real_%s_%d' % (key, len(_REAL)),
                                real_env(key), block=block)
    return _REAL[ck]


def restore_real():
    pass
