"""symh5: a journalled in-memory model of the HDF5 checkpoint file and of the
few file-system calls nautilus makes (h5py.File, Path, os.replace).

Every mutation is one journal entry.  `FS.crashed(k)` gives the file system as
it would be after a kill at journal position k.  Two durability models:
  'api'    every API operation is atomic and durable in order;
  'close'  additionally a file whose writing handle was not closed before the
           kill is unreadable (HDF5 keeps metadata cached until close).
"""
import copy

from . import symnp
from .engine import NotModelled, SV


class Node(object):
    def __init__(self, kind):
        self.kind = kind            # 'group' | 'dataset'
        self.attrs = {}             # insertion ordered
        self.children = {}
        self.data = None
        self.maxshape = None


class VFile(object):
    def __init__(self):
        self.root = Node('group')
        self.open_for_write = 0     # number of unclosed writing handles


def _site():
    """nautilus function (in sampler.py) issuing the current operation"""
    import sys
    f = sys._getframe(2)
    names = []
    while f is not None:
        fn = f.f_code.co_filename
        if fn.endswith('/sampler.py'):
            names.append(f.f_code.co_name)
        f = f.f_back
    # the checkpoint entry point the operation belongs to, whatever private
    # helpers it is delegated to
    for entry in ('write_shell_update', 'write'):
        if entry in names:
            return entry
    return names[0] if names else '?'


def _copy_value(v):
    if isinstance(v, symnp.ndarray):
        return v.copy()
    if isinstance(v, (list, tuple)):
        return symnp.array(list(v))
    return v


def _store_attr(v):
    """what h5py accepts as an attribute value"""
    if v is None:
        raise TypeError("Object dtype dtype('O') has no native HDF5 "
                        "equivalent")
    if isinstance(v, (bool, int, float, str, bytes, SV)):
        return v
    if isinstance(v, symnp.ndarray):
        if v.dt == 'object':
            raise TypeError('Object dtype has no native HDF5 equivalent')
        return v.copy()
    if isinstance(v, symnp.dtype):
        raise TypeError('dtype object is not an attribute value')
    if isinstance(v, (list, tuple)):
        try:
            a = symnp.array(list(v))
        except ValueError as e:
            raise TypeError(str(e))
        if a.dt == 'object':
            raise TypeError('Object dtype has no native HDF5 equivalent')
        return a
    if hasattr(v, '__index__'):
        return int(v)
    raise TypeError('no native HDF5 equivalent for %s' % type(v).__name__)


class FileSystem(object):
    def __init__(self):
        self.files = {}
        self.dirs = set()
        self.journal = []
        self.sites = []
        self.model = 'api'

    # -- primitive operations (each is one journal entry)
    def do(self, op, log=True):
        if log:
            self.journal.append(op)
            self.sites.append(_site())
        kind = op[0]
        if kind == 'create_file':
            f = VFile()
            f.open_for_write = 1
            self.files[op[1]] = f
        elif kind == 'open_rw':
            self.files[op[1]].open_for_write += 1
        elif kind == 'close_w':
            f = self.files.get(op[1])
            if f is not None:
                f.open_for_write = max(0, f.open_for_write - 1)
            else:
                # the name was replaced / unlinked while open: find by id
                for g in self.files.values():
                    if g is op[2]:
                        g.open_for_write = max(0, g.open_for_write - 1)
        elif kind == 'unlink':
            del self.files[op[1]]
        elif kind == 'replace':
            self.files[op[2]] = self.files.pop(op[1])
        elif kind == 'mkdir':
            self.dirs.add(op[1])
        elif kind == 'create_group':
            node = self._node(op[1], op[2])
            node.children[op[3]] = Node('group')
        elif kind == 'set_attr':
            node = self._node(op[1], op[2])
            node.attrs[op[3]] = op[4]
        elif kind == 'create_dataset':
            node = self._node(op[1], op[2])
            d = Node('dataset')
            d.data = op[4]
            d.maxshape = op[5]
            node.children[op[3]] = d
        elif kind == 'resize':
            d = self._node(op[1], op[2])
            d.data = _resized(d.data, op[3])
        elif kind == 'write_ds':
            d = self._node(op[1], op[2])
            d.data = op[3]
        else:
            raise NotModelled('fs op %s' % kind)

    def _node(self, fid, gpath):
        # fid is the VFile object itself (names may change under replace)
        node = fid.root
        for p in gpath:
            node = node.children[p]
        return node

    # -- crash states
    def snapshot(self):
        return dict(files=copy.deepcopy(self.files), dirs=set(self.dirs),
                    ids={id(f): name for name, f in self.files.items()})

    def crashed(self, snap, journal, k, model='api'):
        """file system after a kill at journal position k (first k entries
        of `journal` applied to the snapshot taken before them)."""
        fs = FileSystem()
        fs.files = copy.deepcopy(snap['files'])
        fs.dirs = set(snap['dirs'])
        fs.model = model
        # journal entries refer to the live VFile objects: map them
        mapping = {i: fs.files[name] for i, name in snap['ids'].items()}

        def tr(op):
            return tuple(mapping.get(id(x), x) if isinstance(x, VFile) else x
                         for x in op)
        pending = {}          # 'close' model: r+ changes buffered until close
        for op in journal[:k]:
            if op[0] == 'create_file':
                fs.do(op, log=False)
                mapping[id(op[2])] = fs.files[op[1]]
                continue
            op = tr(op)
            if model == 'close':
                if op[0] == 'open_rw':
                    pending[id(fs.files[op[1]])] = []
                    fs.do(op, log=False)
                    continue
                if op[0] == 'close_w':
                    f = fs.files.get(op[1], op[2])
                    for q in pending.pop(id(f), []):
                        fs.do(q, log=False)
                    fs.do(op, log=False)
                    continue
                if len(op) > 1 and isinstance(op[1], VFile) and \
                        id(op[1]) in pending:
                    pending[id(op[1])].append(op)
                    continue
            fs.do(op, log=False)
        if model == 'close':
            # r+ handles that were never closed: their changes are lost, the
            # file itself stays readable
            for f in fs.files.values():
                if id(f) in pending:
                    f.open_for_write = max(0, f.open_for_write - 1)
        return fs


def _resized(data, shape):
    """h5py Dataset.resize: keep overlapping part, zero-fill the rest"""
    shape = tuple(int(s) for s in shape)
    new = symnp.zeros(shape, data.dt)
    if len(shape) != data.ndim:
        raise TypeError('New shape length does not match dataset rank')
    if data.ndim == 1:
        n = min(shape[0], data.shape[0])
        for i in range(n):
            new[i] = data[i]
    elif data.ndim == 2:
        for i in range(min(shape[0], data.shape[0])):
            for j in range(min(shape[1], data.shape[1])):
                new[i, j] = data[i, j]
    else:
        raise NotModelled('resize of %d-d dataset' % data.ndim)
    return new


FS = FileSystem()


def reset(model='api'):
    global FS
    FS = FileSystem()
    FS.model = model
    return FS


def use(fs):
    global FS
    FS = fs


# ---------------------------------------------------------------------------
# h5py look-alikes
# ---------------------------------------------------------------------------

class Attrs(object):
    def __init__(self, owner):
        self._o = owner

    def _node(self):
        return self._o._node()

    def __setitem__(self, key, value):
        self._o._check_writable()
        v = _store_attr(value)
        FS.do(('set_attr', self._o._vf, self._o._path, key, v))

    def __getitem__(self, key):
        v = self._node().attrs[key]
        return _copy_value(v)

    def __contains__(self, key):
        return key in self._node().attrs

    def __iter__(self):
        return iter(list(self._node().attrs.keys()))

    def keys(self):
        return list(self._node().attrs.keys())


class Group(object):
    def __init__(self, file, vf, path):
        self._file, self._vf, self._path = file, vf, tuple(path)
        self.attrs = Attrs(self)

    def _node(self):
        if self._file._closed:
            raise ValueError('Invalid location identifier (file is closed)')
        return FS._node(self._vf, self._path)

    def _check_writable(self):
        if self._file._closed:
            raise ValueError('Invalid location identifier (file is closed)')
        if self._file.mode == 'r':
            raise KeyError('Unable to write (file is read-only)')

    def create_group(self, name):
        self._check_writable()
        if name in self._node().children:
            raise ValueError('Unable to create group (name already exists)')
        FS.do(('create_group', self._vf, self._path, name))
        return Group(self._file, self._vf, self._path + (name,))

    def create_dataset(self, name, data=None, maxshape=None, **kw):
        self._check_writable()
        if name in self._node().children:
            raise ValueError('Unable to create dataset (name already exists)')
        arr = symnp.array(data) if not isinstance(data, symnp.ndarray) \
            else data.copy()
        if arr.dt == 'object':
            raise TypeError('Object dtype has no native HDF5 equivalent')
        if maxshape is not None:
            if len(maxshape) != arr.ndim:
                raise ValueError('"maxshape" must have same rank as dataset '
                                 'shape')
        FS.do(('create_dataset', self._vf, self._path, name, arr,
               None if maxshape is None else tuple(maxshape)))
        return Dataset(self._file, self._vf, self._path + (name,))

    def __getitem__(self, name):
        node = self._node()
        if name not in node.children:
            raise KeyError("Unable to synchronously open object (object '%s' "
                           "doesn't exist)" % name)
        ch = node.children[name]
        if ch.kind == 'group':
            return Group(self._file, self._vf, self._path + (name,))
        return Dataset(self._file, self._vf, self._path + (name,))

    def __contains__(self, name):
        return name in self._node().children

    def keys(self):
        # h5py lists members in alphabetical order of their names
        return sorted(self._node().children.keys())

    def __iter__(self):
        return iter(self.keys())

    def __len__(self):
        return len(self._node().children)

    def values(self):
        return [self[k] for k in self.keys()]

    def items(self):
        return [(k, self[k]) for k in self.keys()]


class Dataset(object):
    def __init__(self, file, vf, path):
        self._file, self._vf, self._path = file, vf, tuple(path)
        self.attrs = Attrs(self)

    def _node(self):
        if self._file._closed:
            raise ValueError('Invalid dataset identifier (file is closed)')
        return FS._node(self._vf, self._path)

    def _check_writable(self):
        if self._file._closed:
            raise ValueError('Invalid dataset identifier (file is closed)')
        if self._file.mode == 'r':
            raise KeyError('Unable to write (file is read-only)')

    @property
    def shape(self):
        return self._node().data.shape

    def __len__(self):
        return len(self._node().data)

    def __symnp_array__(self):
        return self._node().data.copy()

    def resize(self, shape, axis=None):
        self._check_writable()
        node = self._node()
        if node.maxshape is None:
            raise TypeError('Only chunked datasets can be resized')
        shape = tuple(int(s) for s in (shape if isinstance(
            shape, (tuple, list)) else (shape,)))
        if len(shape) != node.data.ndim:
            raise TypeError('New shape length does not match dataset rank')
        for s, m in zip(shape, node.maxshape):
            if m is not None and s > m:
                raise ValueError('Unable to set extend dataset (dimension '
                                 'cannot exceed the existing maximal size)')
        FS.do(('resize', self._vf, self._path, shape))

    def __setitem__(self, key, value):
        self._check_writable()
        if key is not Ellipsis:
            raise NotModelled('dataset assignment with key %r' % (key,))
        node = self._node()
        arr = symnp.array(value) if not isinstance(value, symnp.ndarray) \
            else value.copy()
        if tuple(arr.shape) != tuple(node.data.shape):
            if arr.size == node.data.size == 0:
                pass
            else:
                raise TypeError("Can't broadcast %s -> %s" % (
                    arr.shape, node.data.shape))
        FS.do(('write_ds', self._vf, self._path,
               arr.astype(node.data.dt) if arr.dt != node.data.dt else arr))

    def __getitem__(self, key):
        return self._node().data[key]


class File(Group):
    def __init__(self, name, mode='r'):
        name = str(name)
        self.filename = name
        self.mode = mode
        self._closed = False
        if mode in ('r', 'r+'):
            if name not in FS.files:
                raise FileNotFoundError(
                    "[Errno 2] Unable to synchronously open file (unable to "
                    "open file: name = '%s')" % name)
            vf = FS.files[name]
            if FS.model == 'close' and vf.open_for_write > 0 and mode == 'r':
                raise OSError('Unable to synchronously open file (file was '
                              'not closed properly / bad object header)')
            if mode == 'r+':
                FS.do(('open_rw', name))
        elif mode in ('w', 'x', 'w-'):
            if mode in ('x', 'w-') and name in FS.files:
                raise FileExistsError(
                    "[Errno 17] Unable to synchronously create file (unable "
                    "to open file: name = '%s')" % name)
            vf0 = VFile()
            FS.journal.append(('create_file', name, vf0))
            FS.sites.append(_site())
            vf0.open_for_write = 1
            FS.files[name] = vf0
            vf = vf0
        else:
            raise NotModelled('h5py mode %r' % mode)
        Group.__init__(self, self, vf, ())

    def close(self):
        if self._closed:
            return
        if self.mode != 'r':
            FS.do(('close_w', self.filename, self._vf))
        self._closed = True

    def flush(self):
        pass

    def __enter__(self):
        return self

    def __exit__(self, *a):
        self.close()
        return False


class _H5Module(object):
    File = File
    Group = Group
    Dataset = Dataset


h5py = _H5Module()


# ---------------------------------------------------------------------------
# pathlib.Path / os look-alikes
# ---------------------------------------------------------------------------

class Path(object):
    def __init__(self, p):
        self._p = str(p)

    def __str__(self):
        return self._p

    def __fspath__(self):
        return self._p

    def __repr__(self):
        return 'SymPath(%r)' % self._p

    def __eq__(self, o):
        return str(o) == self._p

    def __hash__(self):
        return hash(self._p)

    @property
    def name(self):
        return self._p.rsplit('/', 1)[-1]

    @property
    def suffix(self):
        n = self.name
        return '.' + n.rsplit('.', 1)[1] if '.' in n.strip('.') else ''

    @property
    def parent(self):
        return Path(self._p.rsplit('/', 1)[0] if '/' in self._p else '.')

    def exists(self):
        return self._p in FS.files or self._p in FS.dirs

    def unlink(self, missing_ok=False):
        if self._p not in FS.files:
            if missing_ok:
                return
            raise FileNotFoundError(self._p)
        FS.do(('unlink', self._p))

    def mkdir(self, parents=False, exist_ok=False):
        if self._p in FS.dirs and not exist_ok:
            raise FileExistsError(self._p)
        if self._p not in FS.dirs:
            FS.do(('mkdir', self._p))

    def with_name(self, name):
        if '/' in self._p:
            return Path(self._p.rsplit('/', 1)[0] + '/' + name)
        return Path(name)

    def with_suffix(self, suffix):
        n = self.name
        stem = n.rsplit('.', 1)[0] if '.' in n.strip('.') else n
        return self.with_name(stem + suffix)


class _OS(object):
    @staticmethod
    def replace(src, dst):
        src, dst = str(src), str(dst)
        if src not in FS.files:
            raise FileNotFoundError(src)
        FS.do(('replace', src, dst))

    @staticmethod
    def remove(p):
        Path(p).unlink()

    class path(object):
        @staticmethod
        def exists(p):
            return Path(p).exists()


os_mod = _OS()
