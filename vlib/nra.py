"""The 'linear twin': translation of log-domain terms of the main (UF + linear
arithmetic) pool into pure nonlinear real arithmetic, so that statements such
as  exp(log_z) == sum_ij l_ij * V_i / n_i  can be discharged by nlsat.

  E(t)  = exp(t) for a log-domain term t
          E(LOG x) = T(x), E(LSE(a..)) = sum E(a), E(a+b) = E(a)E(b),
          E(a-b) = E(a)/E(b), E(k a) = E(a)^k, E(atom) = fresh positive var
  T(t)  = value of a linear-domain term
          T(EXP x) = E(x), T(MUL(a,b)) = T(a)T(b), T(DIV(a,b)) = T(a)/T(b),
          T(SQRT a) = s with s>=0, s*s = T(a); integers become reals.
Comparisons of two log-typed terms in the path condition are mirrored
(a < b  <=>  E(a) < E(b)).  Only UF-free facts reach the NRA query; using
fewer hypotheses is sound for `unsat`.
"""
import math
import time
from fractions import Fraction

import z3

LOG_ATOM_PREFIXES = ('logv_', 'lmin_', 'L', 'LOG', 'LSE')


class Untranslatable(Exception):
    pass


def _kind(t):
    return t.decl().kind()


def _name(t):
    return t.decl().name()


def _is_uninterp(t):
    return z3.is_app(t) and _kind(t) == z3.Z3_OP_UNINTERPRETED


def _numeral(t):
    if z3.is_int_value(t):
        return Fraction(t.as_long())
    if z3.is_rational_value(t):
        return Fraction(t.numerator_as_long(), t.denominator_as_long())
    return None


class Ctx(object):
    def __init__(self, log_atoms=('L', 'logv_', 'lmin_', 'logw_', 'lv_'),
                 roots=True):
        self.log_atoms = tuple(log_atoms)
        self.roots = roots          # define sqrt / root variables by equations
        self.evars = {}
        self.cvars = {}
        self.opaque = {}
        self.rtwin = {}
        self.side = []
        self.n = 0
        self._is_log = {}

    def _fresh(self, base):
        self.n += 1
        return z3.Real('%s!%d' % (base, self.n))

    # -- typing
    def is_log(self, t):
        k = t.get_id()
        r = self._is_log.get(k)
        if r is None:
            r = self._is_log_(t)
            self._is_log[k] = r
        return r

    def _is_log_(self, t):
        if _numeral(t) is not None:
            return False
        if _is_uninterp(t):
            n = _name(t)
            if n == 'LOG' or n.startswith('LSE'):
                return True
            if n in ('EXP', 'MUL', 'DIV', 'SQRT', 'POW'):
                return False
            return any(n == p or (p.endswith('_') and n.startswith(p))
                       for p in self.log_atoms)
        if z3.is_add(t) or z3.is_sub(t):
            ch = t.children()
            return all(self.is_log(c) or _numeral(c) == 0 for c in ch) and \
                any(self.is_log(c) for c in ch)
        if z3.is_mul(t):
            ch = t.children()
            if len(ch) == 2 and _numeral(ch[0]) is not None:
                return self.is_log(ch[1])
            if len(ch) == 2 and _numeral(ch[1]) is not None:
                return self.is_log(ch[0])
            return False
        if z3.is_app_of(t, z3.Z3_OP_UMINUS):
            return self.is_log(t.arg(0))
        if z3.is_app_of(t, z3.Z3_OP_ITE):
            return self.is_log(t.arg(1)) and self.is_log(t.arg(2))
        return False

    # -- exp of a log-domain term
    def E(self, t):
        num = _numeral(t)
        if num is not None:
            if num == 0:
                return z3.RealVal(1)
            v = self.cvars.get(num)
            if v is None:
                v = self._fresh('expc')
                self.cvars[num] = v
                self.side.append(v > 0)
                # order exp(c) against 1 and against the other constants
                self.side.append(v > 1 if num > 0 else v < 1)
                for c2, v2 in self.cvars.items():
                    if c2 != num:
                        self.side.append(v > v2 if num > c2 else v < v2)
            return v
        if _is_uninterp(t):
            n = _name(t)
            if n == 'LOG':
                return self.T(t.arg(0))
            if n.startswith('LSE'):
                r = None
                for c in t.children():
                    e = self.E(c)
                    r = e if r is None else r + e
                return r
            if n in ('EXP', 'MUL', 'DIV', 'SQRT', 'POW'):
                raise Untranslatable('exp of a linear-domain term %s' % n)
            return self._evar(t)
        if z3.is_add(t):
            r = None
            for c in t.children():
                e = self.E(c)
                r = e if r is None else r * e
            return r
        if z3.is_sub(t):
            ch = t.children()
            r = self.E(ch[0])
            for c in ch[1:]:
                r = r / self.E(c)
            return r
        if z3.is_app_of(t, z3.Z3_OP_UMINUS):
            return 1 / self.E(t.arg(0))
        if z3.is_mul(t):
            ch = t.children()
            if len(ch) == 2:
                c, x = (_numeral(ch[0]), ch[1]) if _numeral(ch[0]) is not None \
                    else (_numeral(ch[1]), ch[0])
                if c is not None:
                    return self._pow(self.E(x), c)
            raise Untranslatable('exp of a product')
        if z3.is_app_of(t, z3.Z3_OP_ITE):
            c = self.Tb(t.arg(0))
            if c is None:
                raise Untranslatable('ite condition')
            return z3.If(c, self.E(t.arg(1)), self.E(t.arg(2)))
        if z3.is_to_real(t):
            return self.E(t.arg(0))
        if z3.is_const(t):
            return self._evar(t)
        raise Untranslatable('E(%s)' % t.decl())

    def _evar(self, t):
        k = t.get_id()
        v = self.evars.get(k)
        if v is None:
            v = self._fresh('e')
            self.evars[k] = v
            self.side.append(v > 0)
        return v

    def _pow(self, e, c):
        c = Fraction(c)
        if c.denominator == 1:
            k = int(c)
            r = z3.RealVal(1)
            for _ in range(abs(k)):
                r = r * e
            return r if k >= 0 else 1 / r
        if c.denominator == 2:
            s = self._fresh('sq')
            self.side.append(s > 0)
            self.side.append(s * s == e)
            return self._pow(s, c.numerator)
        raise Untranslatable('power %s' % c)

    # -- value of a linear-domain term
    def T(self, t):
        num = _numeral(t)
        if num is not None:
            return z3.RealVal(str(num))
        if _is_uninterp(t) and t.num_args() > 0:
            n = _name(t)
            if n == 'EXP':
                return self.E(t.arg(0))
            if n == 'MUL':
                return self.T(t.arg(0)) * self.T(t.arg(1))
            if n == 'DIV':
                return self.T(t.arg(0)) / self.T(t.arg(1))
            if n in ('POW', 'SQRT') and not self.roots:
                return self._opaque(t)
            if n == 'POW':
                ex = _numeral(t.arg(1))
                if ex is not None:
                    for k_ in range(1, 9):      # float 1.0/k
                        if abs(float(ex) - 1.0 / k_) < 1e-12:
                            ex = Fraction(1, k_)
                if ex is not None and ex.numerator == 1 and \
                        1 <= ex.denominator <= 8:
                    k = t.get_id()
                    r = self.opaque.get(('pow', k))
                    if r is None:
                        r = self._fresh('root')
                        self.opaque[('pow', k)] = r
                        self.side.append(r >= 0)
                        p_ = r
                        for _ in range(ex.denominator - 1):
                            p_ = p_ * r
                        self.side.append(p_ == self.T(t.arg(0)))
                    return r
                return self._opaque(t)
            if n == 'SQRT':
                k = t.get_id()
                s = self.opaque.get(('sqrt', k))
                if s is None:
                    s = self._fresh('sqrt')
                    self.opaque[('sqrt', k)] = s
                    self.side.append(s >= 0)
                    self.side.append(s * s == self.T(t.arg(0)))
                return s
            return self._opaque(t)
        if z3.is_add(t):
            r = None
            for c in t.children():
                e = self.T(c)
                r = e if r is None else r + e
            return r
        if z3.is_sub(t):
            ch = t.children()
            r = self.T(ch[0])
            for c in ch[1:]:
                r = r - self.T(c)
            return r
        if z3.is_mul(t):
            r = None
            for c in t.children():
                e = self.T(c)
                r = e if r is None else r * e
            return r
        if z3.is_div(t):
            return self.T(t.arg(0)) / self.T(t.arg(1))
        if z3.is_app_of(t, z3.Z3_OP_UMINUS):
            return -self.T(t.arg(0))
        if z3.is_to_real(t):
            return self.T(t.arg(0))
        if z3.is_app_of(t, z3.Z3_OP_ITE):
            c = self.Tb(t.arg(0))
            if c is None:
                return self._opaque(t)
            return z3.If(c, self.T(t.arg(1)), self.T(t.arg(2)))
        if z3.is_const(t):
            if z3.is_int(t):
                k = t.get_id()
                v = self.rtwin.get(k)
                if v is None:
                    v = z3.Real(str(t) + '!r')
                    self.rtwin[k] = v
                return v
            return t
        return self._opaque(t)

    def _opaque(self, t):
        k = t.get_id()
        v = self.opaque.get(k)
        if v is None:
            v = self._fresh('o')
            self.opaque[k] = v
        return v

    # -- formulas
    def Tb(self, c):
        if z3.is_true(c) or z3.is_false(c):
            return c
        if z3.is_not(c):
            x = self.Tb(c.arg(0))
            return None if x is None else z3.Not(x)
        if z3.is_and(c) or z3.is_or(c):
            xs = [self.Tb(a) for a in c.children()]
            if any(x is None for x in xs):
                return None
            return z3.And(*xs) if z3.is_and(c) else z3.Or(*xs)
        ops = {z3.Z3_OP_LT: lambda a, b: a < b, z3.Z3_OP_LE: lambda a, b: a <= b,
               z3.Z3_OP_GT: lambda a, b: a > b, z3.Z3_OP_GE: lambda a, b: a >= b,
               z3.Z3_OP_EQ: lambda a, b: a == b,
               z3.Z3_OP_DISTINCT: lambda a, b: a != b}
        k = _kind(c) if z3.is_app(c) else None
        if k in ops and c.num_args() == 2 and not z3.is_bool(c.arg(0)):
            a, b = c.arg(0), c.arg(1)
            try:
                if self.is_log(a) and self.is_log(b):
                    return ops[k](self.E(a), self.E(b))
                return ops[k](self.T(a), self.T(b))
            except Untranslatable:
                return None
        return None


def _vars(t, acc):
    stack = [t]
    seen = set()
    while stack:
        x = stack.pop()
        if x.get_id() in seen:
            continue
        seen.add(x.get_id())
        if z3.is_const(x) and _kind(x) == z3.Z3_OP_UNINTERPRETED:
            acc.add(x.get_id())
        stack.extend(x.children())
    return acc


def prove(ctx, pc, goal, timeout_ms=30000, relevant_only=True):
    """Is `goal` (a pure NRA formula built with ctx.E / ctx.T) implied by the
    translatable part of the path condition?  Returns (result, seconds):
    'unsat' = proved, 'sat' = candidate counterexample, 'unknown'."""
    hyps = []
    for a in pc:
        try:
            h = ctx.Tb(a)
        except Untranslatable:
            h = None
        if h is not None and not z3.is_true(h):
            hyps.append(h)
    facts = hyps + list(ctx.side)
    if relevant_only:
        need = _vars(goal, set())
        fv = [(_vars(f, set()), f) for f in facts]
        chosen = []
        changed = True
        rest = fv
        while changed:
            changed = False
            nxt = []
            for vs, f in rest:
                if vs & need or not vs:
                    chosen.append(f)
                    if not vs <= need:
                        need |= vs
                        changed = True
                else:
                    nxt.append((vs, f))
            rest = nxt
        facts = chosen
    s = z3.Tactic('qfnra-nlsat').solver()
    s.set('timeout', timeout_ms)
    for f in facts:
        s.add(f)
    s.add(z3.Not(goal))
    t0 = time.time()
    r = s.check()
    return str(r), time.time() - t0, (s.model() if r == z3.sat else None)


class SymAlg(object):
    """what harnesses use to write exp-domain specifications (symbolic)."""
    symbolic = True

    def __init__(self, **kw):
        self.ctx = Ctx(**kw)

    def _t(self, x):
        from .engine import lift, SV
        if isinstance(x, z3.ExprRef):
            return x
        if isinstance(x, float) and (x != x or x in (float('inf'),
                                                     -float('inf'))):
            raise Untranslatable('special value %r' % x)
        return lift(x)

    def E(self, x):
        """exp(x) of a log-domain value (python float or SV); E(-inf) = 0."""
        if isinstance(x, float) and x == -float('inf'):
            return z3.RealVal(0)
        return self.ctx.E(self._t(x))

    def T(self, x):
        return self.ctx.T(self._t(x))

    def eq(self, a, b):
        return a == b

    def le(self, a, b):
        return a <= b

    def lt(self, a, b):
        return a < b

    def conj(self, xs):
        xs = list(xs)
        return z3.And(*xs) if xs else z3.BoolVal(True)

    def num(self, x):
        return z3.RealVal(str(Fraction(x)))


import decimal as _dec

_CTX = _dec.Context(prec=40, Emax=_dec.MAX_EMAX, Emin=_dec.MIN_EMIN,
                    traps=[])


class Big(object):
    """reference arithmetic of the concrete world: decimal numbers with an
    (almost) unbounded exponent, so that the *specification* side of a
    replayed obligation cannot overflow or underflow whatever the scale of the
    likelihood; nan compares false with everything."""
    __slots__ = ('d',)

    def __init__(self, x):
        if isinstance(x, Big):
            self.d = x.d
        elif isinstance(x, _dec.Decimal):
            self.d = x
        else:
            x = float(x)
            self.d = _dec.Decimal(x) if x == x else _dec.Decimal('NaN')

    @staticmethod
    def exp(x):
        x = float(x)
        if x != x:
            return Big(float('nan'))
        if x == -float('inf'):
            return Big(0.0)
        return Big(_CTX.exp(_dec.Decimal(x)))

    def nan(self):
        return self.d.is_nan()

    def _b(self, o):
        return o if isinstance(o, Big) else Big(o)

    def __add__(self, o): return Big(_CTX.add(self.d, self._b(o).d))
    __radd__ = __add__
    def __sub__(self, o): return Big(_CTX.subtract(self.d, self._b(o).d))
    def __rsub__(self, o): return Big(_CTX.subtract(self._b(o).d, self.d))
    def __mul__(self, o): return Big(_CTX.multiply(self.d, self._b(o).d))
    __rmul__ = __mul__
    def __truediv__(self, o): return Big(_CTX.divide(self.d, self._b(o).d))
    def __rtruediv__(self, o): return Big(_CTX.divide(self._b(o).d, self.d))
    def __neg__(self): return Big(_CTX.minus(self.d))
    def __abs__(self): return Big(_CTX.abs(self.d))

    def __pow__(self, k):
        return Big(_CTX.power(self.d, _dec.Decimal(k)))

    def sqrt(self):
        return Big(_CTX.sqrt(self.d))

    def _cmp(self, o, f):
        o = self._b(o)
        if self.d.is_nan() or o.d.is_nan():
            return False
        return f(_CTX.compare(self.d, o.d))

    def __lt__(self, o): return self._cmp(o, lambda c: c < 0)
    def __le__(self, o): return self._cmp(o, lambda c: c <= 0)
    def __gt__(self, o): return self._cmp(o, lambda c: c > 0)
    def __ge__(self, o): return self._cmp(o, lambda c: c >= 0)
    def __eq__(self, o): return self._cmp(o, lambda c: c == 0)
    def __ne__(self, o): return not self.__eq__(o)
    __hash__ = None

    def __float__(self):
        return float(self.d)

    def __repr__(self):
        return 'Big(%s)' % self.d


def _bmax(*xs):
    m = xs[0]
    for x in xs[1:]:
        if x > m:
            m = x
    return m


class ConcAlg(object):
    symbolic = False
    tol = 1e-7

    def E(self, x):
        return Big.exp(x)

    def T(self, x):
        return Big(x)

    def eq(self, a, b):
        a, b = Big(a), Big(b)
        if a.nan() or b.nan():
            return False
        return abs(a - b) <= Big(self.tol) * _bmax(Big(1.0), abs(a), abs(b))

    def le(self, a, b):
        a, b = Big(a), Big(b)
        if a.nan() or b.nan():
            return False
        return a <= b + Big(self.tol) * _bmax(Big(1.0), abs(a), abs(b))

    def lt(self, a, b):
        return Big(a) < Big(b)

    def conj(self, xs):
        return all(xs)

    def num(self, x):
        return Big(x)
