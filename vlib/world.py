"""Worlds: the same harness runs symbolically (SymWorld: engine + symnp +
nautilus_sym) and concretely (ConcreteWorld: real numpy + unmodified nautilus,
fresh symbols replaced by the values of a solver model).  The concrete run is
the replay of counterexamples and the validation of explored paths against the
implementation.
"""
import math
from fractions import Fraction

import z3

from . import engine as E
from . import symnp
from . import loader
from .engine import SV, NotModelled, BeyondBound, PathAbort

W = None            # the current world (set by the runner)


def cur():
    return W


class ReplayMismatch(Exception):
    """The concrete run left the path the model was produced on."""


class ReplayDone(BaseException):
    """The replay reproduced a failing obligation; nothing after it is
    covered by the model."""


# ---------------------------------------------------------------------------
# environment stubs shared by both worlds (they dispatch to the current world)
# ---------------------------------------------------------------------------

class threadpool_limits_stub(object):
    def __init__(self, limits=None, user_api=None):
        pass

    def __enter__(self):
        return self

    def __exit__(self, *a):
        return False

    @classmethod
    def wrap(cls, limits=None, user_api=None):
        return lambda f: f


def time_stub():
    return W.clock()


def warn_stub(*a, **k):
    W.warnings.append(a[0] if a else '')


class _TermSize(object):
    columns = 80


def get_terminal_size_stub(*a):
    return _TermSize()


class BitGen(object):
    def __init__(self, rng):
        self._rng = rng

    @property
    def state(self):
        r = self._rng
        return dict(bit_generator='PCG64',
                    state=dict(state=r.stream * 1000000 + r.draws, inc=r.inc),
                    has_uint32=0, uinteger=0)

    @state.setter
    def state(self, d):
        s = int(d['state']['state'])
        self._rng.stream, self._rng.draws = divmod(s, 1000000)
        self._rng.inc = int(d['state']['inc'])


class StubRNG(object):
    """numpy Generator stand-in.  The k-th draw of stream s is the named
    symbol rng<s>_<k>...: two generators in the same state produce the same
    symbols (same future stream); the state changes on every draw."""

    def __init__(self, stream=1, draws=0):
        self.stream, self.draws, self.inc = stream, draws, 7
        self.bit_generator = BitGen(self)

    override = None      # replay only: values for the next uniform draw

    def _name(self, what):
        n = 'rng%d_%d_%s' % (self.stream, self.draws, what)
        self.draws += 1
        if self.stream >= 900:
            # a draw from a generator that was created without a seed
            W.unseeded_draws = getattr(W, 'unseeded_draws', 0) + 1
        return n

    def value_of(self, draw, what, i):
        """the i-th element of draw number `draw` of this stream"""
        if self.override is not None and what == 'u':
            return self.override[i]
        return W.real('rng%d_%d_%s_%d' % (self.stream, draw, what, i))

    def _reals(self, what, size, lo=None, hi=None):
        np = W.np
        if size is None:
            shape = ()
        elif isinstance(size, (tuple, list)):
            shape = tuple(int(s) for s in size)
        else:
            shape = (int(size),)
        n = 1
        for s in shape:
            n *= s
        base = self._name(what)
        vals = []
        for i in range(n):
            if self.override is not None and what == 'u':
                vals.append(self.override[i])
                continue
            v = W.real('%s_%d' % (base, i))
            if lo is not None:
                W.assume(v >= lo)
            if hi is not None:
                W.assume(v < hi)
            vals.append(v)
        if shape == ():
            return vals[0]
        return W.np.array(vals, dtype=float).reshape(shape) if n else \
            np.zeros(shape)

    def random(self, size=None):
        r = self._reals('u', size, 0, 1)
        if getattr(W, 'opts', {}).get('open_uniform'):
            # histories without the measure-zero draw u == 0
            import numpy
            for v in (r.reshape(-1).tolist() if hasattr(r, 'reshape')
                      else [r]):
                W.assume(v > 0)
        return r

    def uniform(self, low=0.0, high=1.0, size=None):
        if low != 0.0 or high != 1.0:
            raise NotModelled('uniform with bounds')
        return self._reals('u', size, 0, 1)

    def normal(self, loc=0.0, scale=1.0, size=None):
        return self._reals('g', size)

    def integers(self, low, high=None, size=None):
        if high is None:
            low, high = 0, low
        v = W.int(self._name('i'))
        W.assume(v >= low)
        W.assume(v < high)
        return v

    def _pick(self, k, what):
        """arbitrary integer in [0, k), concretised (forks)."""
        if k == 1:
            self.draws += 1
            return 0
        v = W.int(self._name(what))
        W.assume(v >= 0)
        W.assume(v < k)
        return W.concrete_int(v)

    def choice(self, a, size=None, replace=True):
        np = W.np
        if replace:
            raise NotModelled('choice with replacement')
        items = list(np.asarray(a).tolist()) if not isinstance(a, int) \
            else list(range(a))
        n = 1 if size is None else int(size)
        if n > len(items):
            raise ValueError("Cannot take a larger sample than population "
                             "when 'replace=False'")
        out = []
        for j in range(n):
            k = self._pick(len(items), 'c')
            out.append(items.pop(k))
        if size is None:
            return out[0]
        return np.array(out, dtype=int)

    def shuffle(self, arr):
        n = len(arr)
        if n > 3:
            self.draws += 1
            W.note('shuffle of %d rows modelled as identity' % n)
            return
        rows = [arr[i].copy() if hasattr(arr[i], 'copy') else arr[i]
                for i in range(n)]
        order = []
        idx = list(range(n))
        for j in range(n):
            k = self._pick(len(idx), 's')
            order.append(idx.pop(k))
        for i, o in enumerate(order):
            arr[i] = rows[o]

    def multinomial(self, n, pvals):
        np = W.np
        p = np.asarray(pvals).tolist()
        n = int(n)
        out = []
        rest = n
        base = self._name('m')
        for j in range(len(p)):
            if j == len(p) - 1:
                out.append(rest)
                break
            v = W.int('%s_%d' % (base, j))
            W.assume(v >= 0)
            W.assume(v <= rest)
            c = W.concrete_int(v)
            out.append(c)
            rest -= c
        return np.array(out, dtype=int)


def default_rng_stub(seed=None):
    if isinstance(seed, StubRNG):
        return seed
    if isinstance(seed, _SeedSeq):
        return StubRNG(stream=seed.stream)
    if seed is None:
        W.unseeded += 1
        return StubRNG(stream=900 + W.unseeded)
    return StubRNG(stream=int(seed) + 1)


class _SeedSeq(object):
    def __init__(self, entropy, stream=None):
        self.entropy = entropy
        self.stream = stream

    def spawn(self, n):
        base = W.next_stream()
        return [_SeedSeq(self.entropy, base + i) for i in range(n)]


class _RandomNS(object):
    default_rng = staticmethod(default_rng_stub)
    SeedSequence = _SeedSeq

    def __getattr__(self, name):
        raise NotModelled('np.random.%s: global (unseeded) randomness' % name)


symnp.random = _RandomNS()


# ---------------------------------------------------------------------------
# worlds
# ---------------------------------------------------------------------------

BASE_ENV = {
    'np': symnp,
    'logsumexp': symnp.logsumexp,
    'gammaln': symnp.gammaln,
    'threadpool_limits': threadpool_limits_stub,
    'time': time_stub,
    'warn': warn_stub,
    'get_terminal_size': get_terminal_size_stub,
}

_PKG_CACHE = {}


def sym_package(env_extra=None, block=2, key='default'):
    bk = tuple(sorted(block.items())) if isinstance(block, dict) else block
    ck = (key, bk)
    if ck not in _PKG_CACHE:
        env = {'*': dict(BASE_ENV)}
        for scope, d in (env_extra or {}).items():
            env.setdefault(scope, {}).update(d)
        _PKG_CACHE[ck] = loader.load('nautilus_sym_%s_%d' % (
            key, len(_PKG_CACHE)), env, block=block)
    return _PKG_CACHE[ck]


class WorldBase(object):
    def __init__(self):
        self.warnings = []
        self.unseeded = 0
        self.unseeded_draws = 0
        self._stream = 100
        self._clock_n = 0
        self.notes = []
        self.printed = []

    def next_stream(self):
        self._stream += 10
        return self._stream

    def note(self, msg):
        if msg not in self.notes:
            self.notes.append(msg)


class SymWorld(WorldBase):
    symbolic = True

    def __init__(self, eng, pkg):
        WorldBase.__init__(self)
        self.eng = eng
        self.np = symnp
        self.pkg = pkg

    # fresh / named symbols
    def real(self, name):
        return self.eng.named(name, 'real')

    def int(self, name):
        return self.eng.named(name, 'int')

    def bool(self, name):
        return self.eng.named(name, 'bool')

    def fresh(self, base, sort='real'):
        return self.eng.fresh(base, sort)

    def uf(self, fname, args, sort='real'):
        return self.eng.app(fname, args, sort)

    def concrete_int(self, v):
        return int(v) if isinstance(v, SV) else v

    def concrete_bool(self, v):
        return bool(v)

    def assume(self, c):
        self.eng.assume(c)

    def require(self, c, label, detail=None):
        return self.eng.require(c, label, detail)

    def fail(self, label, detail):
        self.eng.fail(label, detail)

    def ok(self, label):
        self.eng.ok(label)

    def same(self, a, b):
        """term-level equality of two scalars (python value or SV)."""
        return scalar_eq(a, b)

    def leq(self, a, b):
        return a <= b

    def scoped(self, cond):
        return self.eng.scoped(cond)

    def rewind(self, prefixes=('s',)):
        """restart the environment streams (fresh proposal points, clock) so
        that a second run sees the same environment as the first"""
        for k in list(self.eng.fresh_n):
            if not k.startswith('@') and k.startswith(tuple(prefixes)):
                del self.eng.fresh_n[k]
        self._clock_n = 0

    def alg(self, **kw):
        from . import nra
        return nra.SymAlg(**kw)

    def require_alg(self, alg, goal, label, detail=None):
        return self.eng.require_nra(alg, goal, label, detail)

    def clock(self):
        t = self.eng.named('clock_%d' % self._clock_n, 'real')
        if self._clock_n > 0:
            prev = z3.Real('clock_%d' % (self._clock_n - 1))
            self.eng.assume(SV(t.t >= prev))
        force = getattr(self, 'clock_force', None)
        if force is not None and self._clock_n >= force[0]:
            # the history explored is one where the time limit is hit here
            self.eng.assume(t - SV(z3.Real('clock_0')) >= force[1])
        self._clock_n += 1
        return t

    def clock_value(self, k):
        return SV(z3.Real('clock_%d' % k))

    def logsumexp(self, a):
        return symnp.logsumexp(a)


def scalar_eq(a, b):
    """Equality obligation between two scalars, treating nan==nan and
    +-inf as values (numpy scalars of stored state)."""
    if isinstance(a, tuple) or isinstance(b, tuple):
        if not (isinstance(a, tuple) and isinstance(b, tuple)) or \
                len(a) != len(b):
            return False
        r = True
        for x, y in zip(a, b):
            r = _and(r, scalar_eq(x, y))
        return r
    if isinstance(a, float) and a != a:
        return isinstance(b, float) and b != b
    if isinstance(b, float) and b != b:
        return False
    if isinstance(a, (str, bytes)) or isinstance(b, (str, bytes)):
        return a == b
    return a == b


def _and(a, b):
    if a is True:
        return b
    if b is True:
        return a
    if a is False or b is False:
        return False
    return a & b


class ConcreteWorld(WorldBase):
    """Replay: named symbols take the values of a model."""
    symbolic = False

    def __init__(self, model, pkg, strict=True):
        import numpy
        WorldBase.__init__(self)
        self.np = numpy
        self.pkg = pkg
        self.model = model
        self.failures = []
        self.checked = 0
        self.fresh_n = {}
        self.strict = strict
        self.stop_on_failure = False

    def _val(self, name, sort):
        v = self.model.get(name)
        if v is None:
            v = 0 if sort != 'bool' else False
        if isinstance(v, list):
            v = Fraction(v[0], v[1])
            return float(v)
        if sort == 'real':
            return float(v)
        return v

    def real(self, name):
        return self._val(name, 'real')

    def int(self, name):
        return int(self._val(name, 'int'))

    def bool(self, name):
        return bool(self._val(name, 'bool'))

    def fresh(self, base, sort='real'):
        n = self.fresh_n.get(base, 0)
        self.fresh_n[base] = n + 1
        return self._val('%s#%d' % (base, n), sort)

    def uf(self, fname, args, sort='real'):
        n = self.fresh_n.get('@' + fname, 0)
        self.fresh_n['@' + fname] = n + 1
        if getattr(self, 'strict_uf', False) and \
                '%s@%d' % (fname, n) not in self.model:
            # a call the symbolic path never made: the run left that path
            raise ReplayMismatch('call %d of %s has no value on the '
                                 'explored path' % (n, fname))
        return self._val('%s@%d' % (fname, n), sort)

    def concrete_int(self, v):
        return int(v)

    def concrete_bool(self, v):
        return bool(v)

    def assume(self, c):
        if not bool(c):
            raise ReplayMismatch('assumption does not hold in the replay')

    def require(self, c, label, detail=None):
        self.checked += 1
        ok = bool(c)
        if not ok:
            self.failures.append((label, detail))
            if self.stop_on_failure:
                raise ReplayDone()
        return ok

    def fail(self, label, detail):
        self.checked += 1
        self.failures.append((label, detail))
        if self.stop_on_failure:
            raise ReplayDone()

    def ok(self, label):
        self.checked += 1

    def same(self, a, b):
        import numpy
        if isinstance(a, tuple) or isinstance(b, tuple) or \
                isinstance(a, numpy.void) or isinstance(b, numpy.void):
            a, b = tuple(a), tuple(b)
            return len(a) == len(b) and all(self.same(x, y)
                                            for x, y in zip(a, b))
        try:
            if a != a and b != b:
                return True
        except Exception:
            pass
        if isinstance(a, (float, numpy.floating)) or \
                isinstance(b, (float, numpy.floating)):
            if math.isinf(a) or math.isinf(b):
                return a == b
            return abs(a - b) <= 1e-9 * max(1.0, abs(a), abs(b))
        return a == b

    def leq(self, a, b):
        return a <= b + 1e-9 * max(1.0, abs(a), abs(b))

    def scoped(self, cond):
        import contextlib
        return contextlib.nullcontext()

    def rewind(self, prefixes=('s',)):
        for k in list(self.fresh_n):
            if not k.startswith('@') and k.startswith(tuple(prefixes)):
                del self.fresh_n[k]
        self._clock_n = 0

    def alg(self, **kw):
        from . import nra
        return nra.ConcAlg()

    def require_alg(self, alg, goal, label, detail=None):
        return self.require(bool(goal), label, detail)

    def clock(self):
        t = self._val('clock_%d' % self._clock_n, 'real')
        self._clock_n += 1
        return t

    def clock_value(self, k):
        return self._val('clock_%d' % k, 'real')

    def logsumexp(self, a):
        from scipy.special import logsumexp
        return logsumexp(a)


# ---------------------------------------------------------------------------
# free thresholds (run() limits): comparisons are recorded / replayed
# ---------------------------------------------------------------------------

class SymThr(object):
    """A free numeric input that is only ever compared.  Every comparison is
    registered so that the replay can answer it the same way."""
    __array_priority__ = 3000

    def __init__(self, W, name, sort='real'):
        self.W, self.name = W, name
        self.sv = W.real(name) if sort == 'real' else W.int(name)

    def _reg(self, r):
        eng = self.W.eng
        if isinstance(r, SV):
            n = eng.fresh_n.get('@thr_' + self.name, 0)
            eng.fresh_n['@thr_' + self.name] = n + 1
            eng.apps.append(('thr_%s@%d' % (self.name, n), r.t))
        return r

    def _cmp(self, o, op):
        if hasattr(o, 'flat_list'):
            vals = [self._cmp(x, op) for x in o.flat_list()]
            return symnp.ndarray.from_flat(vals, o.shape, 'bool')
        if isinstance(o, SymThr):
            o = o.sv
        s = self.sv
        r = {'lt': lambda: s < o, 'le': lambda: s <= o, 'gt': lambda: s > o,
             'ge': lambda: s >= o, 'eq': lambda: s == o,
             'ne': lambda: s != o}[op]()
        return self._reg(r)

    def __lt__(self, o): return self._cmp(o, 'lt')
    def __le__(self, o): return self._cmp(o, 'le')
    def __gt__(self, o): return self._cmp(o, 'gt')
    def __ge__(self, o): return self._cmp(o, 'ge')
    def __eq__(self, o): return self._cmp(o, 'eq')
    def __ne__(self, o): return self._cmp(o, 'ne')
    __hash__ = None

    # arithmetic used by harness obligations only
    def __add__(self, o): return self.sv + o
    def __radd__(self, o): return o + self.sv


class ConcThr(object):
    """Replay twin: answers comparisons as recorded in the model and checks
    afterwards that one number is consistent with all answers."""
    __array_priority__ = 3000

    def __init__(self, W, name, sort='real'):
        self.W, self.name = W, name
        self.value = W.real(name) if sort == 'real' else W.int(name)
        self.lo, self.hi = -float('inf'), float('inf')   # open interval
        self.eqs, self.bad = [], False

    __array_ufunc__ = None

    def _cmp(self, o, op):
        W = self.W
        if getattr(o, 'ndim', 0) > 0:
            import numpy
            return numpy.array([self._cmp(x, op) for x in o.ravel()],
                               dtype=bool).reshape(o.shape)
        n = W.fresh_n.get('@thr_' + self.name, 0)
        W.fresh_n['@thr_' + self.name] = n + 1
        key = 'thr_%s@%d' % (self.name, n)
        if isinstance(o, ConcThr):
            o = o.value
        o = float(o)
        if key in W.model:
            ans = bool(W.model[key])
        else:
            v = self.value
            ans = {'lt': v < o, 'le': v <= o, 'gt': v > o, 'ge': v >= o,
                   'eq': v == o, 'ne': v != o}[op]
        # thr op o == ans  -> constraint on thr
        if op in ('lt', 'le'):
            if ans:
                self.hi = min(self.hi, o)
            else:
                self.lo = max(self.lo, o)
        elif op in ('gt', 'ge'):
            if ans:
                self.lo = max(self.lo, o)
            else:
                self.hi = min(self.hi, o)
        if self.lo > self.hi:
            self.bad = True
        return ans

    def __lt__(self, o): return self._cmp(o, 'lt')
    def __le__(self, o): return self._cmp(o, 'le')
    def __gt__(self, o): return self._cmp(o, 'gt')
    def __ge__(self, o): return self._cmp(o, 'ge')
    def __eq__(self, o): return self._cmp(o, 'eq')
    def __ne__(self, o): return self._cmp(o, 'ne')
    __hash__ = None

    def __add__(self, o): return self.value + o
    def __radd__(self, o): return o + self.value
    def __float__(self): return float(self.value)


def threshold(W, name, sort='real'):
    t = (SymThr if W.symbolic else ConcThr)(W, name, sort)
    W.thresholds = getattr(W, 'thresholds', []) + [t]
    return t


def thresholds_consistent(W):
    """replay: the threshold's model value must be consistent with all the
    comparison answers that were replayed (otherwise the concrete run is not
    the run the model describes)."""
    for t in getattr(W, 'thresholds', []):
        if getattr(t, 'bad', False):
            return False
        if isinstance(t, ConcThr) and not (t.lo <= t.value <= t.hi):
            return False
    return True
