"""symnp: the numpy stand-in the real nautilus code runs on under symx.

An ndarray is (shape, dtype tag, shared buffer, offsets).  Basic slices and
row iteration are views on the same buffer; copies, fancy and mask indexing
are copies - the aliasing matters (in-place priors, in-place updates of stored
arrays).  Elements are python scalars or engine.SV symbolic scalars.  Only
what nautilus uses is implemented; anything else raises NotModelled, which
makes the check INCONCLUSIVE - never 'holds', never a violation.
"""
import builtins
import itertools
import math
from fractions import Fraction

import z3

from . import engine as E
from .engine import SV, NotModelled, is_sv, sv_if

inf = float('inf')
nan = float('nan')
pi = math.pi
newaxis = None
float64 = 'float'
float32 = 'float32'
int64 = 'int'
int16 = 'int16'
bool_ = 'bool'


class Rec(object):
    """Structured dtype: list of (name, dtype)."""

    def __init__(self, fields):
        self.fields = [(n, norm_dtype(d)) for n, d in fields]
        self.names = tuple(n for n, _ in self.fields)

    def __eq__(self, o):
        return isinstance(o, Rec) and o.fields == self.fields

    def __ne__(self, o):
        return not self == o

    def __hash__(self):
        return hash(tuple(self.fields))

    def __repr__(self):
        return 'Rec(%r)' % (self.fields,)


def norm_dtype(d):
    if d is None:
        return None
    if isinstance(d, Rec):
        return d
    if d is int or d == 'int' or d == 'int64':
        return 'int'
    if d is float or d in ('float', 'float64'):
        return 'float'
    if d is bool or d == 'bool':
        return 'bool'
    if d is object or d == 'object':
        return 'object'
    if isinstance(d, list):
        return Rec(d)
    if isinstance(d, str):
        if d in ('float32', 'int16', 'str'):
            return d
        if d.startswith('|S') or d.startswith('S') or d.startswith('<U'):
            return 'str'
    if isinstance(d, dtype):
        return d.tag
    raise NotModelled('dtype %r' % (d,))


class dtype(object):
    """np.dtype look-alike (only identity/equality is needed)."""

    def __init__(self, d):
        self.tag = norm_dtype(d)

    def __eq__(self, o):
        try:
            return self.tag == norm_dtype(o)
        except NotModelled:
            return False

    def __hash__(self):
        return hash(self.tag)

    @property
    def names(self):
        return self.tag.names if isinstance(self.tag, Rec) else None

    def __repr__(self):
        return 'dtype(%r)' % (self.tag,)


class NPBool(int):
    """numpy.bool_ look-alike for concrete results of all()/any(): unlike a
    python bool, ~x is the logical negation."""

    def __new__(cls, v):
        return int.__new__(cls, 1 if v else 0)

    def __invert__(self):
        return NPBool(not int(self))

    def __and__(self, o):
        if isinstance(o, (bool, NPBool)):
            return NPBool(bool(self) and bool(o))
        return o.__rand__(bool(self)) if hasattr(o, '__rand__') else \
            NotImplemented

    __rand__ = __and__

    def __or__(self, o):
        if isinstance(o, (bool, NPBool)):
            return NPBool(bool(self) or bool(o))
        return o.__ror__(bool(self)) if hasattr(o, '__ror__') else \
            NotImplemented

    __ror__ = __or__

    def __repr__(self):
        return 'True' if self else 'False'


def _prod(shape):
    n = 1
    for s in shape:
        n *= s
    return n


def _kind_of(x):
    if isinstance(x, SV):
        return x.kind
    if isinstance(x, (bool, NPBool)):
        return 'bool'
    if isinstance(x, int):
        return 'int'
    if isinstance(x, (float, Fraction)):
        return 'float'
    if isinstance(x, str):
        return 'str'
    if isinstance(x, bytes):
        return 'str'
    return 'object'


_RANK = {'bool': 0, 'int16': 1, 'int': 1, 'float32': 2, 'float': 2}


def _join_kind(kinds):
    k = None
    for x in kinds:
        if x not in _RANK:
            return x if k is None or k == x else 'object'
        if k is None or (k in _RANK and _RANK[x] > _RANK[k]):
            k = x
        elif k not in _RANK:
            return 'object'
    return k or 'float'


def cast_scalar(x, dt):
    """Convert one element to dtype tag dt (numpy astype semantics)."""
    if dt is None or dt == 'object':
        return x
    if isinstance(dt, Rec):
        if isinstance(x, tuple) and len(x) == len(dt.fields):
            return tuple(cast_scalar(v, d) for v, (_, d) in zip(x, dt.fields))
        raise NotModelled('cast %r to record' % (x,))
    if isinstance(x, ndarray):
        if x.shape == ():
            x = x.item()
        else:
            raise ValueError('setting an array element with a sequence.')
    if dt in ('float', 'float32'):
        if isinstance(x, SV):
            if x.kind == 'float':
                return x
            if x.kind == 'int':
                return SV(z3.ToReal(x.t))
            return SV(z3.If(x.t, z3.RealVal(1), z3.RealVal(0)))
        if isinstance(x, (bool, int)):
            return float(x)
        if isinstance(x, (float, Fraction)):
            return x
        raise NotModelled('cast %r to float' % (x,))
    if dt in ('int', 'int16'):
        if isinstance(x, SV):
            if x.kind == 'int':
                return x
            if x.kind == 'bool':
                return SV(z3.If(x.t, z3.IntVal(1), z3.IntVal(0)))
            # truncation toward zero
            t = x.t
            return SV(z3.If(t >= 0, z3.ToInt(t), -z3.ToInt(-t)))
        if isinstance(x, bool):
            return int(x)
        if isinstance(x, int):
            return x
        if isinstance(x, (float, Fraction)):
            if x != x or x in (inf, -inf):
                raise NotModelled('cast of %r to int' % x)
            return int(x)
        raise NotModelled('cast %r to int' % (x,))
    if dt == 'bool':
        if isinstance(x, SV):
            if x.kind == 'bool':
                return x
            return SV(x.t != 0)
        return bool(x)
    if dt == 'str':
        return x
    raise NotModelled('cast to %r' % (dt,))


class ndarray(object):
    __slots__ = ('buf', 'offs', 'shape', 'dt')
    __array_priority__ = 2000

    def __init__(self, buf, offs, shape, dt):
        self.buf, self.offs, self.shape, self.dt = buf, offs, tuple(shape), dt

    # -- construction helpers
    @staticmethod
    def from_flat(elems, shape, dt=None):
        elems = list(elems)
        if dt is None:
            dt = _join_kind([_kind_of(e) for e in elems]) if elems else 'float'
        return ndarray(elems, list(range(len(elems))), shape, dt)

    @property
    def dtype(self):
        return dtype(self.dt)

    @property
    def ndim(self):
        return len(self.shape)

    @property
    def size(self):
        return _prod(self.shape)

    @property
    def T(self):
        if self.ndim < 2:
            return self
        if self.ndim != 2:
            raise NotModelled('.T of %d-d array' % self.ndim)
        n, m = self.shape
        offs = [self.offs[i * m + j] for j in range(m) for i in range(n)]
        return ndarray(self.buf, offs, (m, n), self.dt)

    def flat_list(self):
        b = self.buf
        return [b[o] for o in self.offs]

    def __len__(self):
        if not self.shape:
            raise TypeError('len() of unsized object')
        return self.shape[0]

    def __iter__(self):
        if not self.shape:
            raise TypeError('iteration over a 0-d array')
        for i in range(self.shape[0]):
            yield self[i]

    def __repr__(self):
        return 'symnp.array(%r, shape=%r, dtype=%r)' % (
            self.flat_list(), self.shape, self.dt)

    def item(self):
        if self.size != 1:
            raise ValueError('can only convert an array of size 1')
        return self.buf[self.offs[0]]

    def __bool__(self):
        if self.size != 1:
            raise ValueError('The truth value of an array with more than one '
                             'element is ambiguous.')
        return bool(self.item())

    def __index__(self):
        if self.size != 1 or self.dt not in ('int', 'int16'):
            raise TypeError('only integer scalar arrays can be converted')
        return self.item().__index__()

    def __int__(self):
        return int(self.item())

    def __float__(self):
        return float(self.item())

    def copy(self):
        return ndarray(self.flat_list(), list(range(self.size)), self.shape,
                       self.dt)

    def astype(self, dt):
        dt = norm_dtype(dt)
        return ndarray.from_flat([cast_scalar(x, dt) for x in self.flat_list()],
                                 self.shape, dt)

    def tolist(self):
        def rec(a):
            if a.ndim == 0:
                return a.item()
            return [rec(a[i]) if a.ndim > 1 else a.buf[a.offs[i]]
                    for i in range(a.shape[0])]
        return rec(self)

    def reshape(self, *shape):
        if len(shape) == 1 and isinstance(shape[0], (tuple, list)):
            shape = tuple(shape[0])
        shape = list(shape)
        if -1 in shape:
            k = shape.index(-1)
            rest = _prod([s for s in shape if s != -1])
            shape[k] = self.size // rest if rest else 0
        if _prod(shape) != self.size:
            raise ValueError('cannot reshape array of size %d into shape %r'
                             % (self.size, tuple(shape)))
        return ndarray(self.buf, list(self.offs), tuple(shape), self.dt)

    # -- indexing
    def _index_plan(self, key):
        """Return (per-axis index lists, result shape, is_basic)."""
        if not isinstance(key, tuple):
            key = (key,)
        # expand ellipsis
        n_real = builtins.sum(1 for k in key
                              if k is not None and k is not Ellipsis and
                              not (isinstance(k, ndarray) and k.dt == 'bool'
                                   and k.ndim > 1))
        n_real += builtins.sum(k.ndim for k in key if isinstance(k, ndarray)
                               and k.dt == 'bool' and k.ndim > 1)
        if builtins.sum(1 for k in key if k is Ellipsis) > 1:
            raise IndexError('an index can only have a single ellipsis')
        if n_real > self.ndim:
            raise IndexError('too many indices for array: array is %d-'
                             'dimensional, but %d were indexed'
                             % (self.ndim, n_real))
        ek = []
        seen_ell = False
        for k in key:
            if k is Ellipsis:
                ek.extend([slice(None)] * (self.ndim - n_real))
                seen_ell = True
            else:
                ek.append(k)
        if not seen_ell:
            ek.extend([slice(None)] * (self.ndim - n_real))
        lists, shape, basic = [], [], True
        n_adv = 0
        ax = 0
        for k in ek:
            if k is None:
                lists.append(None)
                shape.append(1)
                continue
            dim = self.shape[ax]
            if isinstance(k, slice):
                idx = list(range(*k.indices(dim)))
                lists.append(idx)
                shape.append(len(idx))
            elif isinstance(k, (list, ndarray)) or \
                    (isinstance(k, tuple)):
                basic = False
                n_adv += 1
                ka = k if isinstance(k, ndarray) else array(k)
                if ka.dt == 'bool':
                    if ka.ndim != 1:
                        raise NotModelled('multi-dimensional mask index')
                    if ka.shape[0] != dim:
                        raise IndexError(
                            'boolean index did not match indexed array along '
                            'axis %d; size of axis is %d but size of '
                            'corresponding boolean axis is %d'
                            % (ax, dim, ka.shape[0]))
                    idx = [i for i, b in enumerate(ka.flat_list()) if b]
                else:
                    if ka.ndim != 1:
                        if ka.ndim == 0:
                            idx = [_norm_index(ka.item(), dim, ax)]
                        else:
                            raise NotModelled('multi-dimensional fancy index')
                    else:
                        if ka.dt not in ('int', 'int16') and ka.size > 0:
                            raise IndexError('arrays used as indices must be '
                                             'of integer (or boolean) type')
                        idx = [_norm_index(i, dim, ax)
                               for i in ka.flat_list()]
                lists.append(idx)
                shape.append(len(idx))
            else:
                # integer scalar (python int, SV int): drops the axis
                i = _norm_index(k, dim, ax)
                lists.append((i,))
            ax += 1
        if n_adv > 1:
            raise NotModelled('more than one array index')
        return lists, tuple(shape), basic

    def _gather(self, lists):
        # strides of self in C order
        strides = []
        s = 1
        for d in reversed(self.shape):
            strides.append(s)
            s *= d
        strides.reverse()
        axes = [l for l in lists if l is not None]
        offs = []
        for combo in itertools.product(*axes):
            o = 0
            for c, st in zip(combo, strides):
                o += c * st
            offs.append(self.offs[o])
        return offs

    def __getitem__(self, key):
        if isinstance(key, str):
            return self._field(key)
        if isinstance(key, ndarray) and key.dt == 'bool' and key.ndim > 1:
            if key.shape != self.shape:
                raise NotModelled('mask of a different shape')
            offs = [o for o, b in zip(self.offs, key.flat_list()) if b]
            return ndarray([self.buf[o] for o in offs], list(range(len(offs))),
                           (len(offs),), self.dt)
        lists, shape, basic = self._index_plan(key)
        offs = self._gather(lists)
        if basic:
            if shape == () and not _has_ellipsis(key):
                return self.buf[offs[0]]
            return ndarray(self.buf, offs, shape, self.dt)
        return ndarray([self.buf[o] for o in offs], list(range(len(offs))),
                       shape, self.dt)

    def __setitem__(self, key, value):
        if isinstance(key, str):
            raise NotModelled('field assignment')
        if isinstance(key, ndarray) and key.dt == 'bool' and key.ndim > 1:
            offs = [o for o, b in zip(self.offs, key.flat_list()) if b]
            shape = (len(offs),)
        else:
            lists, shape, _ = self._index_plan(key)
            offs = self._gather(lists)
        vals = _broadcast_to(value, shape, 'could not broadcast input array '
                             'from shape %s into shape %s')
        dt = self.dt
        for o, v in zip(offs, vals):
            self.buf[o] = cast_scalar(v, dt)

    def _field(self, name):
        if not isinstance(self.dt, Rec) or name not in self.dt.names:
            raise ValueError('no field of name %s' % name)
        k = self.dt.names.index(name)
        return ndarray.from_flat([x[k] for x in self.flat_list()], self.shape,
                                 self.dt.fields[k][1])

    # -- operators
    def __neg__(self): return _unary(self, lambda x: -x)
    def __pos__(self): return self
    def __abs__(self): return _unary(self, abs)

    def __invert__(self):
        if self.dt != 'bool':
            raise NotModelled('~ on non-bool array')
        return _unary(self, lambda x: (not x) if isinstance(x, bool) else ~x,
                      'bool')

    def __add__(self, o): return _binary(self, o, 'add')
    def __radd__(self, o): return _binary(o, self, 'add')
    def __sub__(self, o): return _binary(self, o, 'sub')
    def __rsub__(self, o): return _binary(o, self, 'sub')
    def __mul__(self, o): return _binary(self, o, 'mul')
    def __rmul__(self, o): return _binary(o, self, 'mul')
    def __truediv__(self, o): return _binary(self, o, 'truediv')
    def __rtruediv__(self, o): return _binary(o, self, 'truediv')
    def __floordiv__(self, o): return _binary(self, o, 'floordiv')
    def __mod__(self, o): return _binary(self, o, 'mod')
    def __pow__(self, o): return _binary(self, o, 'pow')
    def __rpow__(self, o): return _binary(o, self, 'pow')
    def __lt__(self, o): return _binary(self, o, 'lt')
    def __le__(self, o): return _binary(self, o, 'le')
    def __gt__(self, o): return _binary(self, o, 'gt')
    def __ge__(self, o): return _binary(self, o, 'ge')
    def __eq__(self, o): return _binary(self, o, 'eq')
    def __ne__(self, o): return _binary(self, o, 'ne')
    def __and__(self, o): return _binary(self, o, 'and')
    def __rand__(self, o): return _binary(o, self, 'and')
    def __or__(self, o): return _binary(self, o, 'or')
    def __ror__(self, o): return _binary(o, self, 'or')
    __hash__ = None

    def _inplace(self, o, op):
        r = _binary(self, o, op)
        if r.shape != self.shape:
            raise ValueError('non-broadcastable output operand with shape %s '
                             'doesn\'t match the broadcast shape %s'
                             % (self.shape, r.shape))
        if op == 'truediv' and self.dt in ('int', 'bool'):
            raise TypeError('Cannot cast ufunc \'divide\' output from '
                            'dtype(\'float64\') to dtype(\'int64\')')
        for o_, v in zip(self.offs, r.flat_list()):
            self.buf[o_] = cast_scalar(v, self.dt)
        return self

    def __iadd__(self, o): return self._inplace(o, 'add')
    def __isub__(self, o): return self._inplace(o, 'sub')
    def __imul__(self, o): return self._inplace(o, 'mul')
    def __itruediv__(self, o): return self._inplace(o, 'truediv')

    # -- methods used by nautilus
    def sum(self, axis=None): return sum(self, axis=axis)
    def all(self, axis=None): return all(self, axis=axis)
    def any(self, axis=None): return any(self, axis=axis)
    def max(self, axis=None): return amax(self, axis=axis)
    def min(self, axis=None): return amin(self, axis=axis)
    def mean(self, axis=None): return mean(self, axis=axis)
    def resize(self, *a): raise NotModelled('ndarray.resize')


def _has_ellipsis(key):
    if key is Ellipsis:
        return True
    return isinstance(key, tuple) and builtins.any(k is Ellipsis for k in key)


def _norm_index(i, dim, ax):
    if isinstance(i, SV) or isinstance(i, ndarray):
        i = i.__index__()
    if isinstance(i, bool) or not isinstance(i, int):
        if hasattr(i, '__index__') and not isinstance(i, (float, bool)):
            i = i.__index__()
        else:
            raise IndexError('only integers, slices (`:`), ellipsis (`...`), '
                             'numpy.newaxis (`None`) and integer or boolean '
                             'arrays are valid indices')
    if i < -dim or i >= dim:
        raise IndexError('index %d is out of bounds for axis %d with size %d'
                         % (i, ax, dim))
    return i % dim if dim else i


def _shape_of(x):
    if isinstance(x, ndarray):
        return x.shape
    return ()


def _bshape(s1, s2):
    n = builtins.max(len(s1), len(s2))
    a = (1,) * (n - len(s1)) + tuple(s1)
    b = (1,) * (n - len(s2)) + tuple(s2)
    out = []
    for x, y in zip(a, b):
        if x == y or y == 1:
            out.append(x)
        elif x == 1:
            out.append(y)
        else:
            raise ValueError('operands could not be broadcast together with '
                             'shapes %s %s' % (tuple(s1), tuple(s2)))
    return tuple(out)


def _broadcast_to(x, shape, msg=None):
    """flat list of elements of x broadcast to shape."""
    if not isinstance(x, ndarray):
        if isinstance(x, (list, tuple)):
            x = array(x)
        else:
            return [x] * _prod(shape)
    xs = x.shape
    if xs == tuple(shape):
        return x.flat_list()
    if len(xs) > len(shape):
        # numpy allows leading 1s to be dropped on assignment
        if builtins.all(s == 1 for s in xs[:len(xs) - len(shape)]):
            xs = xs[len(xs) - len(shape):]
        else:
            raise ValueError((msg or 'cannot broadcast %s to %s')
                             % (x.shape, tuple(shape)))
    pad = (1,) * (len(shape) - len(xs)) + tuple(xs)
    for a, b in zip(pad, shape):
        if a != b and a != 1:
            raise ValueError((msg or 'operands could not be broadcast '
                              'together with shapes %s %s')
                             % (x.shape, tuple(shape)))
    strides = []
    s = 1
    for d in reversed(pad):
        strides.append(0 if d == 1 else s)
        s *= d
    strides.reverse()
    flat = x.flat_list()
    out = []
    for combo in itertools.product(*[range(d) for d in shape]):
        o = 0
        for c, st in zip(combo, strides):
            o += c * st
        out.append(flat[o])
    return out


def _np_div(a, b):
    if not is_sv(a) and not is_sv(b):
        a, b = float(a), float(b)
        if b == 0:
            if a != a or a == 0:
                return nan
            return inf if (a > 0) == (math.copysign(1, b) > 0) else -inf
        return a / b
    if not is_sv(b) and float(b) == 0:
        raise NotModelled('symbolic value divided by zero')
    if E.is_special(b) and is_sv(a):
        return 0.0 if b == b else nan
    return a / b


def _np_mod(a, b):
    if not is_sv(a) and not is_sv(b):
        if isinstance(a, float) or isinstance(b, float):
            if b == 0 or a != a or a in (inf, -inf):
                return nan
            return math.fmod(a, b) if (math.fmod(a, b) == 0 or
                                       (math.fmod(a, b) < 0) == (b < 0)) \
                else math.fmod(a, b) + b
        return a % b
    return a % b


def _op_fn(op):
    if op == 'add':
        return lambda a, b: a + b
    if op == 'sub':
        return lambda a, b: a - b
    if op == 'mul':
        return lambda a, b: a * b
    if op == 'truediv':
        return _np_div
    if op == 'floordiv':
        return lambda a, b: a // b
    if op == 'mod':
        return _np_mod
    if op == 'pow':
        return _np_pow
    if op == 'lt':
        return lambda a, b: a < b
    if op == 'le':
        return lambda a, b: a <= b
    if op == 'gt':
        return lambda a, b: a > b
    if op == 'ge':
        return lambda a, b: a >= b
    if op == 'eq':
        return lambda a, b: a == b
    if op == 'ne':
        return lambda a, b: a != b
    if op == 'and':
        return _and
    if op == 'or':
        return _or
    raise NotModelled(op)


def _np_pow(a, b):
    if not is_sv(a) and not is_sv(b):
        try:
            return a ** b
        except (OverflowError, ZeroDivisionError):
            return inf
    return a ** b


def _and(a, b):
    if isinstance(a, bool) and isinstance(b, bool):
        return a and b
    if isinstance(a, bool):
        return (b if a else False)
    if isinstance(b, bool):
        return (a if b else False)
    return a & b


def _or(a, b):
    if isinstance(a, bool) and isinstance(b, bool):
        return a or b
    if isinstance(a, bool):
        return (True if a else b)
    if isinstance(b, bool):
        return (True if b else a)
    return a | b


def _res_dtype(op, da, db):
    if op in ('lt', 'le', 'gt', 'ge', 'eq', 'ne'):
        return 'bool'
    if op in ('and', 'or'):
        if da == 'bool' and db == 'bool':
            return 'bool'
        return 'int'
    if op == 'truediv':
        return 'float'
    k = _join_kind([da, db])
    if k == 'bool' and op in ('add', 'mul'):
        return 'bool'
    if k == 'bool' and op == 'sub':
        raise TypeError('numpy boolean subtract, the `-` operator, is not '
                        'supported')
    return k


def _dt_of(x):
    if isinstance(x, ndarray):
        return x.dt
    return _kind_of(x)


def _binary(a, b, op):
    if isinstance(a, (list, tuple)):
        a = array(a)
    if isinstance(b, (list, tuple)):
        b = array(b)
    if b is None or a is None:
        if op == 'eq':
            return False
        if op == 'ne':
            return True
        raise TypeError('unsupported operand None')
    for x in (a, b):
        if not isinstance(x, (ndarray, SV, int, float, bool, Fraction)):
            if isinstance(x, str) and op in ('eq', 'ne'):
                continue
            return NotImplemented
    sa, sb = _shape_of(a), _shape_of(b)
    shape = _bshape(sa, sb)
    da, db = _dt_of(a), _dt_of(b)
    # python scalars are "weak": they do not upcast bool/int arrays of arrays
    # except by kind
    rd = _res_dtype(op, da, db)
    fa = _broadcast_to(a, shape)
    fb = _broadcast_to(b, shape)
    fn = _op_fn(op)
    if rd == 'bool' and op in ('add', 'mul'):
        fn = _or if op == 'add' else _and
    out = [fn(x, y) for x, y in zip(fa, fb)]
    if rd in ('float', 'float32'):
        out = [cast_scalar(v, 'float') if not E.is_special(v) else v
               for v in out]
    return ndarray.from_flat(out, shape, rd)


def _unary(a, fn, dt=None):
    if not isinstance(a, ndarray):
        return fn(a)
    return ndarray.from_flat([fn(x) for x in a.flat_list()], a.shape,
                             dt or a.dt)


# ---------------------------------------------------------------------------
# constructors
# ---------------------------------------------------------------------------

def _nest_shape(x):
    if isinstance(x, ndarray):
        return x.shape
    if isinstance(x, (list, tuple)):
        if len(x) == 0:
            return (0,)
        shapes = [_nest_shape(e) for e in x]
        if builtins.any(s != shapes[0] for s in shapes):
            raise ValueError('setting an array element with a sequence. The '
                             'requested array has an inhomogeneous shape')
        return (len(x),) + shapes[0]
    return ()


def _nest_flat(x, out):
    if isinstance(x, ndarray):
        out.extend(x.flat_list())
    elif isinstance(x, (list, tuple)):
        for e in x:
            _nest_flat(e, out)
    else:
        out.append(x)


def array(x, dtype=None, copy=True):
    dt = norm_dtype(dtype)
    if hasattr(x, '__symnp_array__'):
        x = x.__symnp_array__()
    if isinstance(dt, Rec):
        # list of tuples -> 1-d record array (tuple length == fields)
        if isinstance(x, ndarray):
            return x.astype(dt)
        if isinstance(x, tuple):
            return ndarray.from_flat([cast_scalar(x, dt)], (), dt)
        rows = [cast_scalar(tuple(r), dt) for r in x]
        return ndarray.from_flat(rows, (len(rows),), dt)
    if isinstance(x, ndarray):
        r = x.copy()
        return r.astype(dt) if dt is not None and dt != r.dt else r
    shape = _nest_shape(x)
    flat = []
    _nest_flat(x, flat)
    if dt is None:
        dt = _join_kind([_kind_of(e) for e in flat]) if flat else 'float'
    else:
        flat = [cast_scalar(e, dt) for e in flat]
    return ndarray.from_flat(flat, shape, dt)


def asarray(x, dtype=None):
    if isinstance(x, ndarray) and dtype is None:
        return x
    return array(x, dtype=dtype)


def _zero(dt):
    dt = norm_dtype(dt) or 'float'
    if isinstance(dt, Rec):
        return tuple(_zero(d) for _, d in dt.fields)
    return {'bool': False, 'int': 0, 'int16': 0, 'float': 0.0,
            'float32': 0.0, 'object': 0, 'str': ''}[dt]


def _shape_arg(shape):
    if isinstance(shape, (tuple, list)):
        return tuple(int(s) for s in shape)
    return (int(shape),)


def zeros(shape, dtype=float):
    shape = _shape_arg(shape)
    dt = norm_dtype(dtype) or 'float'
    return ndarray.from_flat([_zero(dt)] * _prod(shape), shape, dt)


def ones(shape, dtype=float):
    shape = _shape_arg(shape) if shape != () else ()
    dt = norm_dtype(dtype) or 'float'
    one = cast_scalar(1, dt)
    return ndarray.from_flat([one] * _prod(shape), shape, dt)


def zeros_like(a):
    a = asarray(a)
    return zeros(a.shape, a.dt)


def arange(n):
    return ndarray.from_flat(list(range(int(n))), (int(n),), 'int')


def copy(a):
    if isinstance(a, ndarray):
        return a.copy()
    return array(a)


def atleast_1d(a):
    if isinstance(a, ndarray):
        return a.reshape(1) if a.ndim == 0 else a
    return array([a]) if not isinstance(a, (list, tuple)) else array(a)


def atleast_2d(a):
    a = atleast_1d(a)
    if a.ndim == 1:
        return a.reshape(1, a.shape[0])
    return a


def squeeze(a, axis=None):
    a = asarray(a)
    if axis is None:
        shape = tuple(s for s in a.shape if s != 1)
    else:
        if isinstance(axis, int):
            axis = (axis,)
        axis = tuple(ax % a.ndim if a.ndim else ax for ax in axis)
        for ax in axis:
            if a.shape[ax] != 1:
                raise ValueError('cannot select an axis to squeeze out which '
                                 'has size not equal to one')
        shape = tuple(s for i, s in enumerate(a.shape) if i not in axis)
    return ndarray(a.buf, list(a.offs), shape, a.dt)


def diag(a):
    a = asarray(a)
    if a.ndim == 2:
        n = builtins.min(a.shape)
        return ndarray.from_flat([a[i, i] for i in range(n)], (n,), a.dt)
    if a.ndim == 1:
        n = a.shape[0]
        r = zeros((n, n), a.dt)
        for i in range(n):
            r[i, i] = a[i]
        return r
    raise ValueError('Input must be 1- or 2-d.')


def outer(a, b):
    a, b = asarray(a), asarray(b)
    fa, fb = a.flat_list(), b.flat_list()
    return ndarray.from_flat([x * y for x in fa for y in fb],
                             (len(fa), len(fb)))


def dot(a, b):
    a, b = asarray(a), asarray(b)
    if a.ndim == 1 and b.ndim == 1:
        return einsum('i,i', a, b)
    if a.ndim == 2 and b.ndim == 1:
        return einsum('ij,j', a, b)
    if a.ndim == 1 and b.ndim == 2:
        return einsum('i,ij', a, b)
    if a.ndim == 2 and b.ndim == 2:
        return einsum('ij,jk', a, b)
    raise NotModelled('dot of %d-d and %d-d' % (a.ndim, b.ndim))


# ---------------------------------------------------------------------------
# joining / reshaping
# ---------------------------------------------------------------------------

def concatenate(arrays, axis=0):
    arrs = [asarray(a) for a in arrays]
    if len(arrs) == 0:
        raise ValueError('need at least one array to concatenate')
    nd = arrs[0].ndim
    for a in arrs:
        if a.ndim == 0:
            raise ValueError('zero-dimensional arrays cannot be concatenated')
        if a.ndim != nd:
            raise ValueError(
                'all the input array dimensions except for the concatenation '
                'axis must match exactly, but along dimension 0, the array at '
                'index 0 has %d dimension(s) and the array at index 1 has %d '
                'dimension(s)' % (nd, a.ndim))
    axis = axis % nd
    base = arrs[0].shape
    for a in arrs:
        for i in range(nd):
            if i != axis and a.shape[i] != base[i]:
                raise ValueError(
                    'all the input array dimensions except for the '
                    'concatenation axis must match exactly, but along '
                    'dimension %d, the array at index 0 has size %d and the '
                    'array at index 1 has size %d' % (i, base[i], a.shape[i]))
    dts = [a.dt for a in arrs]
    if builtins.any(isinstance(d, Rec) for d in dts):
        if builtins.any(d != dts[0] for d in dts):
            raise TypeError('invalid type promotion with structured datatype')
        dt = dts[0]
    else:
        dt = _join_kind(dts)
    shape = list(base)
    shape[axis] = builtins.sum(a.shape[axis] for a in arrs)
    if axis == 0:
        flat = []
        for a in arrs:
            flat.extend(a.flat_list())
    else:
        outer_n = _prod(base[:axis])
        flat = []
        chunks = []
        for a in arrs:
            fl = a.flat_list()
            inner = _prod(a.shape[axis:])
            chunks.append((fl, inner))
        for o in range(outer_n):
            for fl, inner in chunks:
                flat.extend(fl[o * inner:(o + 1) * inner])
    if not isinstance(dt, Rec) and dt in _RANK:
        flat = [cast_scalar(v, dt) if not E.is_special(v) else v
                for v in flat]
    return ndarray.from_flat(flat, tuple(shape), dt)


def append(arr, values, axis=None):
    arr = asarray(arr)
    values = asarray(values)
    if axis is None:
        return concatenate([arr.reshape(-1), values.reshape(-1)])
    if arr.ndim != values.ndim:
        if arr.ndim == 0 or values.ndim == 0:
            raise ValueError('zero-dimensional arrays cannot be concatenated')
        raise ValueError(
            'all the input arrays must have same number of dimensions, but '
            'the array at index 0 has %d dimension(s) and the array at index '
            '1 has %d dimension(s)' % (arr.ndim, values.ndim))
    return concatenate([arr, values], axis=axis)


def vstack(arrays):
    arrs = [atleast_2d(asarray(a)) for a in arrays]
    return concatenate(arrs, axis=0)


def repeat(a, repeats, axis=None):
    if not isinstance(a, ndarray):
        a = array(a) if isinstance(a, (list, tuple)) else array([a]).reshape(())
    reps = repeats
    if isinstance(reps, (ndarray, list, tuple)):
        reps = [int(r) for r in asarray(reps).flat_list()]
    else:
        reps = int(reps)
    if axis is None:
        flat = a.flat_list()
        n = len(flat)
        if isinstance(reps, int):
            reps = [reps] * n
        if len(reps) == 1 and n != 1:
            reps = reps * n
        if len(reps) != n:
            raise ValueError('operands could not be broadcast together with '
                             'shape (%d,) (%d,)' % (n, len(reps)))
        out = []
        for x, r in zip(flat, reps):
            if r < 0:
                raise ValueError('repeats may not contain negative values.')
            out.extend([x] * r)
        return ndarray.from_flat(out, (len(out),), a.dt)
    if axis != 0:
        raise NotModelled('repeat along axis %r' % axis)
    n = a.shape[0]
    if isinstance(reps, int):
        reps = [reps] * n
    if len(reps) != n:
        raise ValueError('operands could not be broadcast together with '
                         'shape (%d,) (%d,)' % (n, len(reps)))
    rows = []
    for i, r in enumerate(reps):
        if r < 0:
            raise ValueError('repeats may not contain negative values.')
        rows.extend([i] * r)
    return a[array(rows, dtype=int)] if rows else \
        ndarray.from_flat([], (0,) + a.shape[1:], a.dt)


def delete(arr, obj, axis=None):
    arr = asarray(arr)
    if axis is None:
        arr = arr.reshape(-1)
        axis = 0
    axis = axis % arr.ndim
    dim = arr.shape[axis]
    if isinstance(obj, (ndarray, list, tuple)):
        oa = asarray(obj)
        if oa.dt == 'bool':
            drop = set(i for i, b in enumerate(oa.flat_list()) if b)
        else:
            drop = set(_norm_index(i, dim, axis) for i in oa.flat_list())
    else:
        drop = {_norm_index(obj, dim, axis)}
    keep = array([i for i in range(dim) if i not in drop], dtype=int)
    key = [slice(None)] * arr.ndim
    key[axis] = keep
    return arr[tuple(key)]


def flatnonzero(a):
    a = asarray(a)
    return array([i for i, b in enumerate(a.flat_list()) if b], dtype=int)


def where(cond, a=None, b=None):
    if a is None and b is None:
        return (flatnonzero(cond),)
    shape = _bshape(_bshape(_shape_of(cond), _shape_of(a)), _shape_of(b))
    fc = _broadcast_to(cond, shape)
    fa = _broadcast_to(a, shape)
    fb = _broadcast_to(b, shape)
    out = [sv_if(c, x, y) for c, x, y in zip(fc, fa, fb)]
    if shape == ():
        return out[0]
    dt = _join_kind([_dt_of(a), _dt_of(b)])
    return ndarray.from_flat(out, shape, dt)


# ---------------------------------------------------------------------------
# reductions
# ---------------------------------------------------------------------------

def _reduce(a, axis, fn, dt=None):
    a = asarray(a) if not isinstance(a, ndarray) else a
    if axis is None:
        return fn(a.flat_list())
    axis = axis % a.ndim
    shape = a.shape[:axis] + a.shape[axis + 1:]
    out = []
    for combo in itertools.product(*[range(d) for d in shape]):
        key = list(combo)
        key.insert(axis, slice(None))
        out.append(fn(a[tuple(key)].flat_list()))
    if shape == ():
        return out[0]
    return ndarray.from_flat(out, shape, dt)


def _sum_list(xs):
    if not xs:
        return 0
    s = None
    for x in xs:
        if isinstance(x, bool):
            x = int(x)
        elif isinstance(x, SV) and x.kind == 'bool':
            x = cast_scalar(x, 'int')
        s = x if s is None else s + x
    return s


def sum(a, axis=None):
    a = asarray(a)
    if a.size == 0 and axis is None:
        return 0 if a.dt in ('int', 'bool') else 0.0
    return _reduce(a, axis, _sum_list)


def _all_list(xs):
    ts = []
    for x in xs:
        if isinstance(x, SV):
            ts.append(E.truth(x))
        elif not x:
            return False
    if not ts:
        return True
    return SV(z3.And(*ts)) if len(ts) > 1 else SV(ts[0])


def _any_list(xs):
    ts = []
    for x in xs:
        if isinstance(x, SV):
            ts.append(E.truth(x))
        elif x:
            return True
    if not ts:
        return False
    return SV(z3.Or(*ts)) if len(ts) > 1 else SV(ts[0])


def _npb(r):
    return NPBool(r) if isinstance(r, bool) else r


def all(a, axis=None):
    return _npb(_reduce(asarray(a), axis, _all_list, 'bool'))


def any(a, axis=None):
    return _npb(_reduce(asarray(a), axis, _any_list, 'bool'))


def _lt(a, b):
    """concrete truth of a < b (forks if symbolic); nan-unaware."""
    return bool(a < b)


def _max_list(xs, nanaware=True):
    if not xs:
        raise ValueError('zero-size array to reduction operation maximum '
                         'which has no identity')
    m = xs[0]
    for x in xs[1:]:
        if isinstance(m, float) and m != m:
            return m
        if isinstance(x, float) and x != x:
            return x
        if _lt(m, x):
            m = x
    return m


def _min_list(xs):
    if not xs:
        raise ValueError('zero-size array to reduction operation minimum '
                         'which has no identity')
    m = xs[0]
    for x in xs[1:]:
        if isinstance(m, float) and m != m:
            return m
        if isinstance(x, float) and x != x:
            return x
        if _lt(x, m):
            m = x
    return m


def amax(a, axis=None):
    return _reduce(asarray(a), axis, _max_list)


def amin(a, axis=None):
    return _reduce(asarray(a), axis, _min_list)


max = amax
min = amin


def nanmax(a, axis=None):
    a = asarray(a)
    xs = [x for x in a.flat_list() if not (isinstance(x, float) and x != x)]
    if not xs:
        return nan
    return _max_list(xs)


def _argmax_list(xs):
    if not xs:
        raise ValueError('attempt to get argmax of an empty sequence')
    k = 0
    for i in range(1, len(xs)):
        m, x = xs[k], xs[i]
        if isinstance(m, float) and m != m:
            return k
        if isinstance(x, float) and x != x:
            return i
        if _lt(m, x):
            k = i
    return k


def _argmin_list(xs):
    if not xs:
        raise ValueError('attempt to get argmin of an empty sequence')
    k = 0
    for i in range(1, len(xs)):
        m, x = xs[k], xs[i]
        if isinstance(m, float) and m != m:
            return k
        if isinstance(x, float) and x != x:
            return i
        if _lt(x, m):
            k = i
    return k


def argmax(a, axis=None):
    return _reduce(asarray(a), axis, _argmax_list, 'int')


def argmin(a, axis=None):
    return _reduce(asarray(a), axis, _argmin_list, 'int')


def _stable_order(xs):
    """indices sorting xs ascending, stable, nan last (forks on order)."""
    idx = []
    for i, x in enumerate(xs):
        # insertion from the right keeps stability
        j = len(idx)
        while j > 0:
            y = xs[idx[j - 1]]
            if isinstance(x, float) and x != x:
                break
            if (isinstance(y, float) and y != y) or _lt(x, y):
                j -= 1
            else:
                break
        idx.insert(j, i)
    return idx


def _along(a, axis, fn, dt=None):
    """apply fn (list -> list) to every 1-d lane of a along axis."""
    a = asarray(a)
    if a.ndim == 0:
        raise ValueError('axis out of bounds for a 0-d array')
    axis = axis % a.ndim
    other = [range(d) for i, d in enumerate(a.shape) if i != axis]
    lanes = {}
    n_out = None
    for combo in itertools.product(*other):
        key = list(combo)
        key.insert(axis, slice(None))
        out = fn(a[tuple(key)].flat_list())
        n_out = len(out)
        lanes[combo] = out
    if n_out is None:
        n_out = a.shape[axis]
    shape = list(a.shape)
    shape[axis] = n_out
    flat = []
    for combo in itertools.product(*[range(d) for d in shape]):
        c = list(combo)
        k = c.pop(axis)
        flat.append(lanes[tuple(c)][k])
    return ndarray.from_flat(flat, tuple(shape), dt or a.dt)


def argsort(a, axis=-1):
    return _along(a, axis, _stable_order, 'int')


def sort(a, axis=-1):
    return _along(a, axis, lambda xs: [xs[i] for i in _stable_order(xs)])


def mean(a, axis=None):
    a = asarray(a)
    if isinstance(a, ndarray) and axis is not None:
        n = a.shape[axis % a.ndim]
    else:
        n = a.size
    s = sum(a, axis=axis)
    if n == 0:
        return nan
    return s / n


def std(a, axis=None):
    a = asarray(a)
    m = mean(a, axis=axis)
    if axis == 0 and a.ndim == 2:
        d = a - m
    elif axis is None:
        d = a - m
    else:
        raise NotModelled('std axis')
    return sqrt(mean(d * d, axis=axis))


def median(a):
    a = asarray(a)
    xs = sort(a.reshape(-1)).flat_list()
    n = len(xs)
    if n == 0:
        return nan
    if n % 2:
        return xs[n // 2]
    return (xs[n // 2 - 1] + xs[n // 2]) / 2


def diff(a, n=1, axis=-1, prepend=None, append=None):
    if n != 1:
        raise NotModelled('diff n != 1')
    a = asarray(a)
    if prepend is not None or append is not None:
        if a.ndim != 1:
            raise NotModelled('diff with prepend/append on %d-d' % a.ndim)
        parts = []
        if prepend is not None:
            parts.append(atleast_1d(asarray(prepend)))
        parts.append(a)
        if append is not None:
            parts.append(atleast_1d(asarray(append)))
        a = concatenate(parts)
    return _along(a, axis, lambda xs: [xs[i + 1] - xs[i]
                                       for i in range(len(xs) - 1)])


def bincount(x, minlength=0):
    x = asarray(x)
    xs = [int(v) for v in x.flat_list()]
    if builtins.any(v < 0 for v in xs):
        raise ValueError("'list' argument must have no negative elements")
    n = builtins.max([minlength] + [v + 1 for v in xs])
    out = [0] * n
    for v in xs:
        out[v] += 1
    return array(out, dtype=int)


def maximum(a, b):
    def f(x, y):
        if isinstance(x, float) and x != x:
            return x
        if isinstance(y, float) and y != y:
            return y
        if not is_sv(x) and not is_sv(y):
            return x if x >= y else y
        return sv_if(x >= y, x, y)
    return _map2(a, b, f)


def _map2(a, b, f):
    shape = _bshape(_shape_of(a), _shape_of(b))
    fa, fb = _broadcast_to(a, shape), _broadcast_to(b, shape)
    out = [f(x, y) for x, y in zip(fa, fb)]
    if shape == ():
        return out[0]
    return ndarray.from_flat(out, shape)


def isnan(a):
    return _unary_any(a, lambda x: isinstance(x, float) and x != x, 'bool')


def _unary_any(a, fn, dt=None):
    if isinstance(a, ndarray):
        return ndarray.from_flat([fn(x) for x in a.flat_list()], a.shape, dt)
    if isinstance(a, (list, tuple)):
        return _unary_any(array(a), fn, dt)
    return fn(a)


# ---------------------------------------------------------------------------
# transcendental functions: uninterpreted in the main pool
# ---------------------------------------------------------------------------

def _log1(x):
    if is_sv(x):
        t = E._toreal(x.t)
        if E._is_const_term(z3.simplify(t)):
            return math.log(float(E._const_val(z3.simplify(t))))
        return SV(E.uf('LOG', E.R, E.R)(t))
    x = float(x)
    if x != x:
        return nan
    if x == 0:
        return -inf
    if x < 0:
        return nan
    if x == inf:
        return inf
    if x == 1:
        return 0.0
    # constants: keep exact identity through an uninterpreted application so
    # that log(2) in two places is the same term
    return SV(E.uf('LOG', E.R, E.R)(E._rv(x)))


# when a list, every symbolic argument handed to exp() is recorded (range
# obligations of the estimator harnesses: float64 exp overflows above 709.78)
EXP_ARGS = None


def _exp1(x):
    if is_sv(x):
        t = E._toreal(x.t)
        if EXP_ARGS is not None:
            EXP_ARGS.append(x)
        r = SV(E.uf('EXP', E.R, E.R)(t))
        eng = E.cur()
        eng.assume(r > 0)
        if getattr(eng, 'lemmas', False):
            # exp is monotone and exp(0) = 1
            if eng.proves(t <= 0):
                eng.assume(r <= 1)
            if eng.proves(t >= 0):
                eng.assume(r >= 1)
            if eng.proves(t == 0):
                eng.assume(r == 1)
        return r
    x = float(x)
    if x != x:
        return nan
    if x == -inf:
        return 0.0
    if x == inf:
        return inf
    if x == 0:
        return 1.0
    r = SV(E.uf('EXP', E.R, E.R)(E._rv(x)))
    E.cur().assume(r > 0)
    return r


def _sqrt1(x):
    if is_sv(x):
        r = SV(E.uf('SQRT', E.R, E.R)(E._toreal(x.t)))
        E.cur().assume(r >= 0)
        return r
    x = float(x)
    if x < 0 or x != x:
        return nan
    return math.sqrt(x)


def _floor1(x):
    if is_sv(x):
        if x.kind == 'int':
            return cast_scalar(x, 'float')
        return SV(z3.ToReal(z3.ToInt(x.t)))
    if isinstance(x, float) and (x != x or x in (inf, -inf)):
        return x
    return float(math.floor(x))


def log(a): return _unary_any(a, _log1, 'float')
def exp(a): return _unary_any(a, _exp1, 'float')
def sqrt(a): return _unary_any(a, _sqrt1, 'float')
def floor(a): return _unary_any(a, _floor1, 'float')
def abs(a): return _unary_any(a, builtins.abs)


def logsumexp(a, axis=None):
    """scipy.special.logsumexp stand-in: LSE_n uninterpreted; -inf entries
    drop out, all -inf (or empty) gives -inf."""
    if axis is not None:
        raise NotModelled('logsumexp axis')
    a = asarray(a)
    xs = a.flat_list()
    if builtins.any(isinstance(x, float) and x != x for x in xs):
        return nan
    if builtins.any(isinstance(x, float) and x == inf for x in xs):
        return inf
    xs = [x for x in xs if not (isinstance(x, float) and x == -inf)]
    if not xs:
        return -inf
    if len(xs) == 1:
        x = xs[0]
        return cast_scalar(x, 'float') if is_sv(x) else float(x)
    ts = [E._toreal(E.lift(x)) for x in xs]
    f = E.uf('LSE%d' % len(ts), *([E.R] * (len(ts) + 1)))
    return SV(f(*ts))


def gammaln(x):
    return math.lgamma(float(x))


# ---------------------------------------------------------------------------
# einsum (generic, small shapes)
# ---------------------------------------------------------------------------

def einsum(subs, *ops):
    ops = [asarray(o) for o in ops]
    subs = subs.replace(' ', '')
    if '->' in subs:
        ins, out = subs.split('->')
    else:
        ins, out = subs, None
    ins = ins.split(',')
    if len(ins) != len(ops):
        raise ValueError('einsum operand count')
    # expand ellipsis with upper-case letters
    ell_n = 0
    for s, o in zip(ins, ops):
        if '...' in s:
            ell_n = builtins.max(ell_n, o.ndim - (len(s) - 3))
    ell = 'ABCDEFG'[:ell_n]
    ins2 = []
    for s, o in zip(ins, ops):
        if '...' in s:
            k = o.ndim - (len(s) - 3)
            s = s.replace('...', ell[ell_n - k:])
        if len(s) != o.ndim:
            raise ValueError('einsum subscripts do not match operand')
        ins2.append(s)
    if out is None:
        counts = {}
        for s in ins2:
            for c in s:
                if c not in ell:
                    counts[c] = counts.get(c, 0) + 1
        out = ell + ''.join(sorted(c for c, n in counts.items() if n == 1))
    else:
        out = out.replace('...', ell)
    dims = {}
    for s, o in zip(ins2, ops):
        for c, d in zip(s, o.shape):
            if dims.setdefault(c, d) != d:
                if dims[c] == 1:
                    dims[c] = d
                elif d != 1:
                    raise ValueError('einsum dimension mismatch for %s' % c)
    summed = [c for c in dims if c not in out]
    flats = [o.flat_list() for o in ops]
    strides = []
    for s, o in zip(ins2, ops):
        st = {}
        acc = 1
        for c, d in zip(reversed(s), reversed(o.shape)):
            st[c] = st.get(c, 0) + (acc if d != 1 else 0)
            acc *= d
        strides.append(st)
    oshape = tuple(dims[c] for c in out)
    res = []
    for oc in itertools.product(*[range(dims[c]) for c in out]):
        env = dict(zip(out, oc))
        total = None
        for sc in itertools.product(*[range(dims[c]) for c in summed]):
            env.update(zip(summed, sc))
            term = None
            for fl, st in zip(flats, strides):
                off = 0
                for c, k in st.items():
                    off += env[c] * k
                v = fl[off]
                term = v if term is None else term * v
            total = term if total is None else total + term
        res.append(total if total is not None else 0.0)
    if oshape == ():
        return res[0]
    return ndarray.from_flat(res, oshape)


# ---------------------------------------------------------------------------
# misc
# ---------------------------------------------------------------------------

def array_equal(a, b):
    a, b = asarray(a), asarray(b)
    if a.shape != b.shape:
        return False
    return all(a == b)


def isscalar(x):
    return not isinstance(x, (ndarray, list, tuple))


def shape(a):
    return asarray(a).shape


class _Linalg(object):
    """filled in by stubs (inv, cholesky, slogdet)"""

    def __getattr__(self, name):
        raise NotModelled('np.linalg.%s' % name)


linalg = _Linalg()


class _Random(object):
    def __getattr__(self, name):
        raise NotModelled('np.random.%s (global or unseeded randomness)'
                          % name)


random = _Random()


# ---------------------------------------------------------------------------
# equivalents in terms of the functions above (idioms a refactoring of the
# package may switch to)
# ---------------------------------------------------------------------------

def full(shape, fill_value, dtype=None):
    shape = _shape_arg(shape) if shape != () else ()
    dt = norm_dtype(dtype) if dtype is not None else _kind_of(fill_value)
    v = cast_scalar(fill_value, dt) if dt else fill_value
    return ndarray.from_flat([v] * _prod(shape), shape, dt)


def full_like(a, fill_value, dtype=None):
    a = asarray(a)
    return full(a.shape, fill_value, dtype or a.dt)


def ones_like(a):
    a = asarray(a)
    return ones(a.shape, a.dt)


def empty(shape, dtype=float):
    return zeros(shape, dtype)


def count_nonzero(a, axis=None):
    a = asarray(a)
    if a.dt == 'bool':
        return sum(a, axis=axis)
    return sum(a != 0, axis=axis)


def nonzero(a):
    a = asarray(a)
    if a.ndim != 1:
        raise NotModelled('np.nonzero of a %d-d array' % a.ndim)
    return (flatnonzero(a),)


def compress(condition, a, axis=None):
    a = asarray(a)
    idx = flatnonzero(condition)
    if axis is None:
        return a.reshape(a.size)[idx]
    if axis == 0:
        return a[idx]
    if axis in (1, -1) and a.ndim == 2:
        return a[:, idx]
    raise NotModelled('np.compress axis %r' % (axis,))


def take(a, indices, axis=None):
    a = asarray(a)
    if axis is None:
        return a.reshape(a.size)[indices]
    if axis == 0:
        return a[indices]
    raise NotModelled('np.take axis %r' % (axis,))


def column_stack(arrays):
    cols = []
    for x in arrays:
        x = asarray(x)
        if x.ndim == 1:
            x = x.reshape(x.size, 1)
        cols.append(x)
    return concatenate(cols, axis=1)


def hstack(arrays):
    arrs = [atleast_1d(asarray(a)) for a in arrays]
    return concatenate(arrs, axis=0 if arrs[0].ndim == 1 else 1)


def stack(arrays, axis=0):
    if axis != 0:
        raise NotModelled('np.stack axis %r' % (axis,))
    arrs = [asarray(a) for a in arrays]
    return concatenate([x.reshape(*((1,) + tuple(x.shape))) for x in arrs],
                       axis=0)


def ravel(a):
    a = asarray(a)
    return a.reshape(a.size)


def transpose(a):
    return asarray(a).T


def minimum(a, b):
    def f(x, y):
        if isinstance(x, float) and x != x:
            return x
        if isinstance(y, float) and y != y:
            return y
        if not is_sv(x) and not is_sv(y):
            return x if x <= y else y
        return sv_if(x <= y, x, y)
    return _map2(a, b, f)


def nanmin(a, axis=None):
    return -nanmax(-asarray(a), axis=axis)


def square(a):
    a = asarray(a) if isinstance(a, (list, tuple)) else a
    return a * a


def absolute(a):
    return abs(a)


def negative(a):
    return -(asarray(a) if isinstance(a, (list, tuple)) else a)


def add(a, b): return _binary(a, b, 'add') if False else asarray(a) + b
def subtract(a, b): return asarray(a) - b
def multiply(a, b): return asarray(a) * b
def divide(a, b): return asarray(a) / b
true_divide = divide


def logical_and(a, b): return asarray(a) & asarray(b)
def logical_or(a, b): return asarray(a) | asarray(b)
def logical_not(a): return ~asarray(a, dtype=bool)


def isinf(a):
    return _unary_any(a, lambda x: isinstance(x, float) and
                      x in (inf, -inf), 'bool')


def isfinite(a):
    return _unary_any(a, lambda x: not (isinstance(x, float) and
                                        (x != x or x in (inf, -inf))), 'bool')


def ndim(a):
    return asarray(a).ndim


def size(a):
    return asarray(a).size


def __getattr__(name):
    raise NotModelled('np.%s' % name)


# ---------------------------------------------------------------------------
# linear algebra: results are fresh matrices constrained by their defining
# equations (as equalities between product terms; expanded by nra.py)
# ---------------------------------------------------------------------------

def _fresh_matrix(base, n, m, lower=False):
    eng = E.cur()
    k = eng.fresh_n.get('mat:' + base, 0)
    eng.fresh_n['mat:' + base] = k + 1
    rows = []
    for i in range(n):
        row = []
        for j in range(m):
            if lower and j > i:
                row.append(0.0)
            else:
                row.append(eng.named('%s%d_%d_%d' % (base, k, i, j), 'real'))
        rows.append(row)
    return array(rows, dtype=float)


def _assume_eq_matrix(a, b):
    eng = E.cur()
    fa, fb = asarray(a).flat_list(), asarray(b).flat_list()
    for x, y in zip(fa, fb):
        eng.assume(x == y)


def _identity(n):
    return array([[1.0 if i == j else 0.0 for j in range(n)]
                  for i in range(n)], dtype=float)


def _inv(m):
    m = asarray(m)
    if m.ndim != 2 or m.shape[0] != m.shape[1]:
        raise ValueError('Last 2 dimensions of the array must be square')
    n = m.shape[0]
    if builtins.all(not is_sv(x) for x in m.flat_list()):
        import numpy
        r = numpy.linalg.inv(numpy.array(m.tolist(), dtype=float))
        return array(r.tolist(), dtype=float)
    r = _fresh_matrix('inv', n, n)
    _assume_eq_matrix(einsum('ij,jk', m, r), _identity(n))
    _assume_eq_matrix(einsum('ij,jk', r, m), _identity(n))
    return r


def _cholesky(m):
    m = asarray(m)
    n = m.shape[0]
    low = _fresh_matrix('chol', n, n, lower=True)
    eng = E.cur()
    for i in range(n):
        eng.assume(low[i, i] > 0)
    _assume_eq_matrix(einsum('ij,kj', low, low), m)
    return low


def _slogdet(m):
    m = asarray(m)
    n = m.shape[0]
    ts = [E._toreal(E.lift(x)) for x in m.flat_list()]
    f = E.uf('SLOGDET%d' % n, *([E.R] * (n * n + 1)))
    return (1.0, SV(f(*ts)))


class _LinalgImpl(object):
    inv = staticmethod(_inv)
    cholesky = staticmethod(_cholesky)
    slogdet = staticmethod(_slogdet)

    def __getattr__(self, name):
        raise NotModelled('np.linalg.%s' % name)


linalg = _LinalgImpl()


def average(a, weights=None, axis=None):
    a = asarray(a)
    if weights is None:
        return mean(a, axis=axis)
    w = asarray(weights)
    if axis != 0 or a.ndim != 2:
        raise NotModelled('average with these arguments')
    tot = sum(w)
    cols = []
    for j in range(a.shape[1]):
        s = None
        for k in range(a.shape[0]):
            t = w[k] * a[k, j]
            s = t if s is None else s + t
        cols.append(s / tot)
    return array(cols, dtype=float)


def cov(m, aweights=None, rowvar=True, bias=False):
    m = asarray(m)
    if rowvar or not bias or aweights is None or m.ndim != 2:
        raise NotModelled('cov with these arguments')
    w = asarray(aweights)
    tot = sum(w)
    mu = average(m, weights=w, axis=0)
    d = m.shape[1]
    out = []
    for i in range(d):
        row = []
        for j in range(d):
            s = None
            for k in range(m.shape[0]):
                t = w[k] * ((m[k, i] - mu[i]) * (m[k, j] - mu[j]))
                s = t if s is None else s + t
            row.append(s / tot)
        out.append(row)
    r = array(out, dtype=float)
    return r if d > 1 else r.reshape(())


def polyfit(*a, **k):
    raise NotModelled('np.polyfit')


def polyval(*a, **k):
    raise NotModelled('np.polyval')
