"""Runs harness configurations (symbolic exploration, replay of candidates on
the real code, validation of explored paths against the implementation) over a
process pool and aggregates what the evidence file reports."""
import json
import multiprocessing
import os
import sys
import time
import traceback

from . import engine as E
from . import world
from . import loader


class Job(object):
    """One harness configuration.

    harness: 'module:function' taking (W, cfg); cfg: JSON-able dict;
    env_key / env: which symbolic package flavour to load."""

    def __init__(self, harness, cfg, name=None, block=2, pkg_key='default',
                 max_paths=3000, query_timeout_ms=20000, validate=2,
                 max_int_values=6, nra_timeout_ms=30000, split=None):
        self.nra_timeout_ms = nra_timeout_ms
        self.split = split            # decision depth at which to fan out
        self.root = None              # sub-job: explore below this prefix
        self.presplit = False
        self.harness, self.cfg = harness, cfg
        self.name = name or '%s %s' % (harness, json.dumps(cfg, sort_keys=True))
        self.block, self.pkg_key = block, pkg_key
        self.max_paths, self.query_timeout_ms = max_paths, query_timeout_ms
        self.validate = validate
        self.max_int_values = max_int_values


def _resolve(spec):
    mod, fn = spec.split(':')
    m = __import__(mod, fromlist=[fn])
    return getattr(m, fn)


def _pkg_env(pkg_key):
    from . import envs
    return envs.ENVS[pkg_key]()


def run_concrete(job, model, stop_on_failure=True, strict_uf=False):
    """Run the harness on the real code with the model's values.
    Returns (status, failures): status in ok|failed|mismatch|error."""
    fn = _resolve(job.harness)
    from . import envs
    pkg = envs.real_package(job.pkg_key, job.block)
    Wc = world.ConcreteWorld(model, pkg)
    Wc.stop_on_failure = stop_on_failure
    Wc.strict_uf = strict_uf
    old = world.W
    world.W = Wc
    import warnings
    warnings.simplefilter('ignore')
    try:
        fn(Wc, job.cfg)
    except world.ReplayDone:
        pass
    except world.ReplayMismatch as e:
        if not Wc.failures:
            return 'mismatch', [('replay-mismatch', str(e))]
    except (E.PathAbort, E.BeyondBound, E.NotModelled) as e:
        if not Wc.failures:
            return 'mismatch', [('replay-left-path', repr(e))]
    except Exception as e:
        if not Wc.failures:
            tb = traceback.format_exc().splitlines()[-6:]
            return 'error', [('replay-exception',
                              repr(e) + ' | ' + ' | '.join(tb))]
    finally:
        world.W = old
        envs.restore_real()
    return ('failed' if Wc.failures else 'ok'), Wc.failures


def run_job(args):
    job, seed = args
    t0 = time.time()
    fn = _resolve(job.harness)
    pkg = world.sym_package(_pkg_env(job.pkg_key), block=job.block,
                            key=job.pkg_key)
    eng = E.Engine(job.name, query_timeout_ms=job.query_timeout_ms,
                   max_paths=job.max_paths, seed=seed,
                   max_int_values=job.max_int_values)
    eng.nra_timeout_ms = getattr(job, 'nra_timeout_ms', 30000)
    path_models = []

    def body(e):
        Ws = world.SymWorld(e, pkg)
        world.W = Ws
        try:
            fn(Ws, job.cfg)
        finally:
            world.W = None
            for n in Ws.notes:
                e.notes.append('NOTE: ' + n)
        if len(path_models) < job.validate and e.sym_decisions > 0:
            # a model of the path condition with moderate magnitudes (only
            # to pick the concrete validation run; the claim is unaffected)
            import z3
            m = None
            try:
                m = E.realistic_model(e)
            except z3.Z3Exception:
                m = None
            if m is None:
                rng = [z3.And(t >= -6, t <= 6) for _, t in e.inputs + e.apps
                       if z3.is_real(t)]
                r, m = e._check(z3.And(*rng) if rng else None)
                if r != 'sat':
                    r, m = e._check()
                if r != 'sat':
                    m = None
            if m is not None:
                path_models.append(e.model_dict(m))

    try:
        eng.explore(body, root=job.root,
                    split_depth=job.split if job.presplit else None)
    except Exception as e:
        tb = traceback.format_exc()
        return dict(name=job.name, harness=job.harness, cfg=job.cfg,
                    crashed=tb, wall_s=time.time() - t0)
    res = eng.summary()
    res['harness'], res['cfg'] = job.harness, job.cfg
    res['split_prefixes'] = eng.split_prefixes
    res['rewrites'] = [list(r) for r in pkg.rewrites]
    # replay candidates (one per label) on the real code
    seen = {}
    res['violations'], res['spurious'] = [], []
    for f in eng.findings:
        key = f.label
        if 'window=' in (f.detail or ''):
            key = (f.label, f.detail.rsplit('window=', 1)[1])
        if key in seen:
            continue
        status, fails = run_concrete(job, f.model)
        for alt in getattr(f, 'alt_models', []):
            if status == 'failed':
                break
            status, fails = run_concrete(job, alt)
            if status == 'failed':
                f.model = alt
        seen[key] = status
        rec = dict(label=f.label, kind=f.kind, detail=f.detail,
                   replay_status=status,
                   replay_failures=[list(map(str, x)) for x in fails][:5],
                   model=f.model, harness=job.harness, cfg=job.cfg,
                   block=job.block, pkg_key=job.pkg_key)
        if status == 'failed':
            res['violations'].append(rec)
        else:
            res['spurious'].append(rec)
    # validate explored paths against the implementation
    res['validated'], res['validation_problems'] = 0, []
    if not eng.findings:
        for m in path_models:
            status, fails = run_concrete(job, m, strict_uf=True)
            if status == 'ok':
                res['validated'] += 1
            else:
                res['validation_problems'].append(
                    [status] + [list(map(str, x)) for x in fails][:3])
    del res['findings']
    res['wall_s'] = time.time() - t0
    return res


def _map(jobs, seed, procs):
    if not jobs:
        return []
    procs = procs or min(16, max(1, len(jobs)))
    if procs == 1 or len(jobs) == 1:
        return [run_job((j, seed)) for j in jobs]
    ctx = multiprocessing.get_context('fork')
    with ctx.Pool(procs, maxtasksperchild=8) as pool:
        return list(pool.imap_unordered(run_job, [(j, seed) for j in jobs],
                                        chunksize=1))


def run_jobs(jobs, seed=0, procs=None):
    """jobs with `split` are fanned out: a pre-pass explores the first
    `split` decisions and every prefix it reaches becomes a sub-job."""
    import copy
    for j in jobs:
        j.presplit = j.split is not None
    first = _map(jobs, seed, procs)
    subs = []
    for r in first:
        for k, pref in enumerate(r.get('split_prefixes') or []):
            src = next(j for j in jobs if j.name == r['name'])
            sj = copy.copy(src)
            sj.presplit = False
            sj.root = list(pref)
            sj.name = '%s [below prefix %d]' % (src.name, k)
            sj.validate = min(src.validate, 1)
            subs.append(sj)
    return first + _map(subs, seed, procs)


def simple_result(name):
    """result record for checks that do not go through Engine.explore."""
    return dict(name=name, paths=0, completed=0, cut=0, aborted=0,
                notmodelled=0, decisions=0, forks=0, q_sat=0, q_unsat=0,
                q_unknown=0, solver_s=0.0, obligations=0, discharged=0,
                failed=0, inconclusive=0, budget_exhausted=0, nontrivial=0,
                notes=[], samples=[], labels={}, violations=[], spurious=[],
                validated=0, validation_problems=[], wall_s=0.0,
                extra_samples=[])


def record(res, label, outcome, solver_s=0.0):
    """outcome: 'unsat' (discharged) | 'sat' | 'unknown'."""
    res['obligations'] += 1
    res['completed'] += 1
    res['paths'] += 1
    res['nontrivial'] += 1
    lab = res['labels'].setdefault(label, [0, 0])
    lab[0] += 1
    res['solver_s'] += solver_s
    res['q_' + outcome] += 1
    if outcome == 'unsat':
        res['discharged'] += 1
        lab[1] += 1
    elif outcome == 'unknown':
        res['inconclusive'] += 1
        res['notes'].append('INCONCLUSIVE %s: solver answered unknown / '
                            'timeout' % label)
