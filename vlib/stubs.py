"""Environment stubs with contracts (every stub is part of the claim)."""
from . import world
from .engine import NotModelled, BeyondBound


def _W():
    return world.W


# ---------------------------------------------------------------------------
# bound used by the sampler (NautilusBound global of sampler.py)
# ---------------------------------------------------------------------------

class StubNautilusBound(object):
    """contains_i is an uninterpreted predicate of the point; sample(n)
    returns n fresh points with contains_i and inside the unit cube (the
    contract that C07 establishes for the real classes); log_v is a real that
    may change whenever sample() ran; the proposal cache is an opaque token
    that changes on sample() and is persisted by write/update/read."""

    n_created = 0          # reset by the harness per path
    pools_seen = []
    max_sample_calls = 2   # unrolling bound per path (BeyondBound beyond)

    def __init__(self, idx, n_dim=2, token=0):
        self.idx = idx
        self.n_dim = n_dim
        self.token = token
        self.sample_calls = 0
        self.n_ell = 1
        self.n_net = 0
        self.rng = None

    # -- the contract
    def _contains1(self, row):
        c = _W().uf('contains_%d' % self.idx, list(row), 'bool')
        if self.__dict__.get('_outer_used'):
            self._link_outer(list(row), c)
        else:
            self.__dict__.setdefault('_rows_seen', []).append((list(row), c))
        return c

    # Parts of a real NautilusBound that callers may look at: the phase shift
    # (an unknown map of the point) and the outer bound (a superset of the
    # bound, expressed in the shifted frame).  They only exist once they are
    # used: contains_i(p) => outer_i(shift_i(p)).
    def _shift1(self, row, inverse=False):
        W = _W()
        nm = 'shinv' if inverse else 'sh'
        return [W.uf('%s%d_%d' % (nm, self.idx, k), list(row))
                for k in range(len(row))]

    def _link_outer(self, row, c):
        W = _W()
        o = W.uf('outer_%d' % self.idx, self._shift1(row), 'bool')
        if W.symbolic:
            import z3
            from .engine import SV, truth
            W.assume(SV(z3.Implies(truth(c), truth(o))))
        else:
            W.assume((not c) or o)

    def _use_outer(self):
        if not self.__dict__.get('_outer_used'):
            self.__dict__['_outer_used'] = True
            for row, c in self.__dict__.get('_rows_seen', []):
                self._link_outer(row, c)

    @property
    def shift(self):
        self._use_outer()
        return _StubShift(self)

    @property
    def outer_bound(self):
        self._use_outer()
        return _StubOuter(self)

    def contains(self, points):
        np = _W().np
        points = np.asarray(points)
        if points.ndim == 1:
            return self._contains1(points)
        out = [self._contains1(points[k]) for k in range(len(points))]
        if not out:
            return np.zeros(0, dtype=bool)
        return np.array(out, dtype=bool)

    def sample(self, n_points=100, return_points=True, pool=None):
        W = _W()
        np = W.np
        type(self).pools_seen.append(pool)
        self.token += 1
        if not return_points:
            return None
        self.sample_calls += 1
        cls = type(self)
        cls.calls_this_path = getattr(cls, 'calls_this_path', 0) + 1
        if cls.calls_this_path > cls.max_sample_calls:
            raise BeyondBound('more than %d proposal rounds'
                              % cls.max_sample_calls)
        n = int(n_points)
        rows = []
        for k in range(n):
            p = [W.fresh('s%d' % self.idx) for _ in range(self.n_dim)]
            for c in p:
                W.assume(c >= 0)
                W.assume(c < 1)
            W.assume(self._contains1(p))
            rows.append(p)
        if not rows:
            return np.zeros((0, self.n_dim))
        return np.array(rows, dtype=float)

    @property
    def log_v(self):
        return _W().real('logv_%d_%d' % (self.idx, self.token))

    # -- construction by the sampler
    @classmethod
    def compute(cls, points, log_l, log_l_min, log_v_target, **kwargs):
        W = _W()
        b = cls(cls.next_index, n_dim=points.shape[1])
        cls.next_index += 1
        b.rng = kwargs.get('rng')
        b.compute_args = dict(n_points=len(points), log_l_min=log_l_min,
                              kwargs=sorted(kwargs))
        cls.computed.append(b)
        return b

    # -- persistence (symh5 / h5py): identity and cache token
    def write(self, group):
        group.attrs['type'] = 'NautilusBound'
        group.attrs['n_dim'] = self.n_dim
        group.attrs['stub_idx'] = self.idx
        group.attrs['stub_token'] = self.token

    def update(self, group):
        group.attrs['stub_token'] = self.token

    @classmethod
    def read(cls, group, rng=None):
        b = cls(int(group.attrs['stub_idx']),
                token=int(group.attrs['stub_token']))
        b.rng = rng
        return b

    def reset(self, rng=None):
        self.token = 0
        if rng is not None:
            self.rng = rng

    @classmethod
    def new_path(cls, next_index=1, max_sample_calls=2):
        cls.next_index = next_index
        cls.computed = []
        cls.pools_seen = []
        cls.calls_this_path = 0
        cls.max_sample_calls = max_sample_calls


class _StubShift(object):
    def __init__(self, b):
        self.b = b

    def transform(self, points, inverse=False):
        np = _W().np
        points = np.asarray(points)
        rows = [self.b._shift1([points[j][k] for k in range(points.shape[1])],
                               inverse) for j in range(len(points))]
        return np.array(rows, dtype=float) if rows else \
            np.zeros((0, points.shape[1]))


class _StubOuter(object):
    def __init__(self, b):
        self.b = b

    def contains(self, points):
        W = _W()
        np = W.np
        points = np.asarray(points)
        if points.ndim == 1:
            return W.uf('outer_%d' % self.b.idx, list(points), 'bool')
        out = [W.uf('outer_%d' % self.b.idx,
                    [points[j][k] for k in range(points.shape[1])], 'bool')
               for j in range(len(points))]
        return np.array(out, dtype=bool) if out else np.zeros(0, dtype=bool)


# ---------------------------------------------------------------------------
# placeholders filled in by later modules
# ---------------------------------------------------------------------------

class _Missing(object):
    def __init__(self, what):
        self._what = what

    def __getattr__(self, name):
        raise NotModelled('%s.%s' % (self._what, name))

    def __call__(self, *a, **k):
        raise NotModelled(self._what)


from . import symh5  # noqa: E402
h5py_proxy = symh5.h5py
path_proxy = symh5.Path
os_proxy = symh5.os_mod


# ---------------------------------------------------------------------------
# scipy.stats.uniform stand-in for nautilus.prior (symbolic package only)
# ---------------------------------------------------------------------------

class FrozenUniform(object):
    def __init__(self, loc, scale):
        self.loc, self.scale = loc, scale

    def isf(self, q):
        return self.loc + (1 - q) * self.scale


def uniform_stub(loc=0, scale=1):
    return FrozenUniform(loc, scale)


# ---------------------------------------------------------------------------
# bound-level stubs (Union / NautilusBound harnesses)
# ---------------------------------------------------------------------------

_MEMBER_CLASSES = {}


def member_class(pkg):
    """Member bound (Ellipsoid look-alike) with a contract instead of a
    shape: contains is an uninterpreted predicate, compute(points) returns a
    member that contains every construction point (the enclosure part of C07,
    proved on the real Ellipsoid) and raises ValueError like the real one
    when there are not more points than dimensions; sample(n) returns n fresh
    points it contains; log_v is a real."""
    key = id(pkg)
    if key in _MEMBER_CLASSES:
        return _MEMBER_CLASSES[key]
    Base = pkg.basic.Ellipsoid

    class MemberStub(Base):
        next_id = 0
        created = []

        def __init__(self, n_dim, rng=None):
            cls = type(self)
            self.mid = cls.next_id
            cls.next_id += 1
            cls.created.append(self)
            self.n_dim = n_dim
            self.rng = rng
            W = _W()
            self.lv = W.real('lv_%d' % self.mid)
            np = W.np
            self.c = np.array([W.real('mc_%d_%d' % (self.mid, i))
                               for i in range(n_dim)], dtype=float)
            # the matrix only feeds the (stubbed) overlap test: diagonal,
            # positive definite
            diag = [W.real('mA_%d_%d' % (self.mid, i)) for i in range(n_dim)]
            for x in diag:
                W.assume(x > 0)
            self.A = np.array([[diag[i] if i == j else 0.0
                                for j in range(n_dim)]
                               for i in range(n_dim)], dtype=float)
            self.sampled = 0

        @classmethod
        def new_path(cls):
            cls.next_id = 0
            cls.created = []

        @classmethod
        def compute(cls, points, enlarge_per_dim=1.1, rng=None):
            if enlarge_per_dim < 1.0:
                raise ValueError("The 'enlarge_per_dim' factor cannot be "
                                 "smaller than unity.")
            if not points.shape[0] > points.shape[1]:
                raise ValueError('Number of points must be larger than '
                                 'number dimensions.')
            b = cls(points.shape[1], rng=rng)
            b.built_from = points
            W = _W()
            for k in range(len(points)):
                W.assume(b._contains1(points[k]))
            return b

        def _contains1(self, row):
            row = [row[i] for i in range(self.n_dim)]
            return _W().uf('mem%d' % self.mid, row, 'bool')

        def contains(self, points):
            np = _W().np
            points = np.asarray(points)
            if points.ndim == 1:
                return self._contains1(points)
            out = [self._contains1(points[k]) for k in range(len(points))]
            return np.array(out, dtype=bool) if out else \
                np.zeros(0, dtype=bool)

        def transform(self, points, inverse=False):
            W = _W()
            np = W.np
            n = len(points)
            rows = [[W.fresh('tr%d' % self.mid) for _ in range(self.n_dim)]
                    for _ in range(n)]
            return np.array(rows, dtype=float) if rows else \
                np.zeros((0, self.n_dim))

        def sample(self, n_points=100):
            W = _W()
            np = W.np
            rows = []
            for k in range(int(n_points)):
                p = [W.fresh('ms%d' % self.mid) for _ in range(self.n_dim)]
                W.assume(self._contains1(p))
                if getattr(W, 'opts', {}).get('members_in_cube'):
                    for x in p:
                        W.assume(x >= 0)
                        W.assume(x < 1)
                rows.append(p)
            self.sampled += int(n_points)
            return np.array(rows, dtype=float) if rows else \
                np.zeros((0, self.n_dim))

        @property
        def log_v(self):
            return self.lv

        def reset(self, rng=None):
            if rng is not None:
                self.rng = rng

    _MEMBER_CLASSES[key] = MemberStub
    return MemberStub


class _GMM(object):
    """sklearn GaussianMixture stand-in: the fit is an opaque token; scores
    come from multivariate_normal.logpdf (havoc)."""

    def __init__(self, n_components=1, n_init=1, random_state=None, **kw):
        self.n_components = n_components
        self.random_state = random_state
        W = _W()
        W.gmm_random_states = getattr(W, 'gmm_random_states', []) + \
            [random_state]

    def fit(self, points):
        W = _W()
        np = W.np
        k = self.n_components
        self.means_ = [('mean', i) for i in range(k)]
        self.covariances_ = [('cov', i) for i in range(k)]
        ws = [W.fresh('gmm_w') for _ in range(k)]
        for w in ws:
            W.assume(w > 0)
        self.weights_ = np.array(ws, dtype=float)
        return self


class _MVN(object):
    @staticmethod
    def logpdf(points, mean=None, cov=None):
        W = _W()
        np = W.np
        n = len(points)
        return np.array([W.fresh('gmm_score') for _ in range(n)],
                        dtype=float) if n else np.zeros(0)


class _MinResult(object):
    def __init__(self, fun):
        self.fun = fun


def _minimize(fun, x0, bounds=None, **kw):
    return _MinResult(_W().fresh('min_fun'))


GaussianMixtureStub = _GMM
MultivariateNormalStub = _MVN
minimize_stub = _minimize


# ---------------------------------------------------------------------------
# sklearn MLPRegressor stand-in (network = uninterpreted function of exactly
# the attributes sklearn's predict reads, and of the input row)
# ---------------------------------------------------------------------------

class MLPRegressorStub(object):
    def __init__(self, hidden_layer_sizes=(100,), activation='relu',
                 alpha=0.0001, learning_rate_init=0.001, max_iter=200,
                 tol=1e-4, n_iter_no_change=10, random_state=None, **kw):
        self.hidden_layer_sizes = hidden_layer_sizes
        self.activation = activation
        self.alpha = alpha
        self.learning_rate_init = learning_rate_init
        self.max_iter = max_iter
        self.tol = tol
        self.n_iter_no_change = n_iter_no_change
        self.random_state = random_state
        for k, v in kw.items():
            setattr(self, k, v)

    def fit(self, x, y):
        raise NotModelled('MLPRegressor.fit')

    def predict(self, x):
        W = _W()
        np = W.np
        for a in ('coefs_', 'intercepts_', 'n_layers_', 'out_activation_',
                  'activation'):
            if not hasattr(self, a):
                raise AttributeError("'MLPRegressor' object has no attribute "
                                     "'%s'" % a)
        params = []
        for k in range(int(self.n_layers_) - 1):
            c = np.asarray(self.coefs_[k])
            params.extend(c.reshape(-1).tolist() if hasattr(c, 'tolist')
                          else list(c))
            b = np.asarray(self.intercepts_[k])
            params.extend(b.reshape(-1).tolist())
        name = 'NN_%s_%s_%d' % (str(self.activation),
                                str(self.out_activation_),
                                int(self.n_layers_))
        x = np.asarray(x)
        out = [W.uf(name, params + [x[j][c] for c in range(x.shape[1])])
               for j in range(len(x))]
        return np.array(out, dtype=float) if out else np.zeros(0)


def rankdata_stub(a):
    raise NotModelled('rankdata')


def _potrf(m):
    raise NotModelled('dpotrf')


dpotrf_stub = _potrf
dpotri_stub = _potrf
