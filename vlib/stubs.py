"""Environment stubs with contracts (every stub is part of the claim)."""
from . import world
from .engine import NotModelled, BeyondBound


def _W():
    return world.W


# ---------------------------------------------------------------------------
# bound used by the sampler (NautilusBound global of sampler.py)
# ---------------------------------------------------------------------------

class StubNautilusBound(object):
    """contains_i is an uninterpreted predicate of the point; sample(n)
    returns n fresh points with contains_i and inside the unit cube (the
    contract that C07 establishes for the real classes); log_v is a real that
    may change whenever sample() ran; the proposal cache is an opaque token
    that changes on sample() and is persisted by write/update/read."""

    n_created = 0          # reset by the harness per path
    max_sample_calls = 2   # unrolling bound per path (BeyondBound beyond)

    def __init__(self, idx, n_dim=2, token=0):
        self.idx = idx
        self.n_dim = n_dim
        self.token = token
        self.sample_calls = 0
        self.n_ell = 1
        self.n_net = 0
        self.rng = None

    # -- the contract
    def _contains1(self, row):
        return _W().uf('contains_%d' % self.idx, list(row), 'bool')

    def contains(self, points):
        np = _W().np
        points = np.asarray(points)
        if points.ndim == 1:
            return self._contains1(points)
        out = [self._contains1(points[k]) for k in range(len(points))]
        if not out:
            return np.zeros(0, dtype=bool)
        return np.array(out, dtype=bool)

    def sample(self, n_points=100, return_points=True, pool=None):
        W = _W()
        np = W.np
        self.token += 1
        if not return_points:
            return None
        self.sample_calls += 1
        cls = type(self)
        cls.calls_this_path = getattr(cls, 'calls_this_path', 0) + 1
        if cls.calls_this_path > cls.max_sample_calls:
            raise BeyondBound('more than %d proposal rounds'
                              % cls.max_sample_calls)
        n = int(n_points)
        rows = []
        for k in range(n):
            p = [W.fresh('s%d' % self.idx) for _ in range(self.n_dim)]
            for c in p:
                W.assume(c >= 0)
                W.assume(c < 1)
            W.assume(self._contains1(p))
            rows.append(p)
        if not rows:
            return np.zeros((0, self.n_dim))
        return np.array(rows, dtype=float)

    @property
    def log_v(self):
        return _W().real('logv_%d_%d' % (self.idx, self.token))

    # -- construction by the sampler
    @classmethod
    def compute(cls, points, log_l, log_l_min, log_v_target, **kwargs):
        W = _W()
        b = cls(cls.next_index, n_dim=points.shape[1])
        cls.next_index += 1
        b.rng = kwargs.get('rng')
        b.compute_args = dict(n_points=len(points), log_l_min=log_l_min,
                              kwargs=sorted(kwargs))
        cls.computed.append(b)
        return b

    # -- persistence (symh5 / h5py): identity and cache token
    def write(self, group):
        group.attrs['type'] = 'NautilusBound'
        group.attrs['n_dim'] = self.n_dim
        group.attrs['stub_idx'] = self.idx
        group.attrs['stub_token'] = self.token

    def update(self, group):
        group.attrs['stub_token'] = self.token

    @classmethod
    def read(cls, group, rng=None):
        b = cls(int(group.attrs['stub_idx']),
                token=int(group.attrs['stub_token']))
        b.rng = rng
        return b

    def reset(self, rng=None):
        self.token = 0
        if rng is not None:
            self.rng = rng

    @classmethod
    def new_path(cls, next_index=1, max_sample_calls=2):
        cls.next_index = next_index
        cls.computed = []
        cls.calls_this_path = 0
        cls.max_sample_calls = max_sample_calls


# ---------------------------------------------------------------------------
# placeholders filled in by later modules
# ---------------------------------------------------------------------------

class _Missing(object):
    def __init__(self, what):
        self._what = what

    def __getattr__(self, name):
        raise NotModelled('%s.%s' % (self._what, name))

    def __call__(self, *a, **k):
        raise NotModelled(self._what)


from . import symh5  # noqa: E402
h5py_proxy = symh5.h5py
path_proxy = symh5.Path
os_proxy = symh5.os_mod
GaussianMixtureStub = _Missing('GaussianMixture')
MultivariateNormalStub = _Missing('multivariate_normal')
minimize_stub = _Missing('minimize')
dpotrf_stub = _Missing('dpotrf')
dpotri_stub = _Missing('dpotri')
MLPRegressorStub = _Missing('MLPRegressor')
rankdata_stub = _Missing('rankdata')


# ---------------------------------------------------------------------------
# scipy.stats.uniform stand-in for nautilus.prior (symbolic package only)
# ---------------------------------------------------------------------------

class FrozenUniform(object):
    def __init__(self, loc, scale):
        self.loc, self.scale = loc, scale

    def isf(self, q):
        return self.loc + (1 - q) * self.scale


def uniform_stub(loc=0, scale=1):
    return FrozenUniform(loc, scale)
