"""symx engine: symbolic execution of real Python code by re-execution.

A harness is an ordinary Python function.  Symbolic scalars (SV) wrap z3 terms;
whenever the running code needs a concrete truth value (``if``, ``while``,
``bool()``, ``int()``) the engine decides it: it follows the recorded prefix
of decisions, otherwise asks z3 which outcomes are feasible under the path
condition, takes one and queues the other.  The harness is re-executed once
per path.  ``require`` discharges an obligation (pc and not phi must be
unsat); ``sat`` gives a model, ``unknown`` is recorded as inconclusive.
"""
import os
import time
import random
from fractions import Fraction

import z3


class PathAbort(BaseException):
    """Path is infeasible or was pruned by an assumption."""


class BeyondBound(BaseException):
    """Path needs more than the stated bound (unrolling, size); it is cut."""


class SplitHere(BaseException):
    """pre-pass of a split job: the path reached the split depth"""


class NotModelled(BaseException):
    """The shim cannot execute an operation: the check is inconclusive."""


ENG = None          # the engine of the path being executed (one per process)


def cur():
    if ENG is None:
        raise RuntimeError('no active engine')
    return ENG


# ---------------------------------------------------------------------------
# symbolic scalars
# ---------------------------------------------------------------------------

def _frac(x):
    if isinstance(x, bool):
        return Fraction(int(x))
    return Fraction(x)


def _rv(x):
    """z3 real constant for a finite python number (exact)."""
    f = _frac(x)
    return z3.RealVal(str(f))


INF = float('inf')


def is_sv(x):
    return isinstance(x, SV)


def is_num(x):
    return isinstance(x, (int, float, bool, Fraction)) and not isinstance(x, SV)


def is_special(x):
    return isinstance(x, float) and (x != x or x in (INF, -INF))


def lift(x):
    """Return a z3 term for a python scalar or SV."""
    if isinstance(x, SV):
        return x.t
    if isinstance(x, bool):
        return z3.BoolVal(x)
    if isinstance(x, int):
        return z3.IntVal(x)
    if isinstance(x, (float, Fraction)):
        if is_special(x):
            raise NotModelled('special float %r in a symbolic term' % x)
        return _rv(x)
    if getattr(x, 'shape', None) == () and hasattr(x, 'item'):
        return lift(x.item())
    if hasattr(x, '__index__'):
        return z3.IntVal(int(x))
    raise NotModelled('cannot lift %r' % (type(x),))


def _arith(t):
    """Coerce a bool term to an int term for arithmetic."""
    if z3.is_bool(t):
        return z3.If(t, z3.IntVal(1), z3.IntVal(0))
    return t


def _coerce2(a, b):
    a, b = _arith(a), _arith(b)
    if a.sort() != b.sort():
        if z3.is_int(a):
            a = _int_to_real(a)
        if z3.is_int(b):
            b = _int_to_real(b)
    return a, b


def _int_to_real(t):
    if z3.is_int_value(t):
        return z3.RealVal(t.as_long())
    return z3.ToReal(t)


_UF = {}


def uf(name, *sorts):
    key = (name,) + tuple(str(s) for s in sorts)
    f = _UF.get(key)
    if f is None:
        f = z3.Function(name, *sorts)
        _UF[key] = f
    return f


R = z3.RealSort()
I = z3.IntSort()
B = z3.BoolSort()


def _is_const_term(t):
    return z3.is_rational_value(t) or z3.is_int_value(t)


def _const_val(t):
    if z3.is_int_value(t):
        return Fraction(t.as_long())
    return Fraction(t.numerator_as_long(), t.denominator_as_long())


def mul_terms(a, b):
    a, b = _coerce2(a, b)
    if _is_const_term(a) or _is_const_term(b):
        return a * b
    # product of two symbolic terms: uninterpreted in the main pool,
    # expanded to a real product by the NRA translation (nra.py)
    a, b = (_int_to_real(a) if z3.is_int(a) else a,
            _int_to_real(b) if z3.is_int(b) else b)
    f = uf('MUL', R, R, R)
    t = f(a, b)
    if ENG is not None and getattr(ENG, 'lemmas', False):
        ENG.mul_lemmas(t, a, b)
    if ENG is not None and not z3.eq(a, b):
        # commutativity instance (the arguments may be syntactically
        # different forms of the same values elsewhere)
        key = ('comm', t.get_id())
        if key not in ENG.decided:
            ENG.decided[key] = True
            ENG.add(t == f(b, a))
    return t


def div_terms(a, b):
    a, b = _coerce2(a, b)
    a = _int_to_real(a) if z3.is_int(a) else a
    b = _int_to_real(b) if z3.is_int(b) else b
    if _is_const_term(b):
        c = _const_val(b)
        if c == 0:
            raise NotModelled('symbolic value divided by zero')
        return a * z3.RealVal(str(1 / c))
    t = uf('DIV', R, R, R)(a, b)
    if ENG is not None:
        key = ('div-inst', t.get_id())
        if key not in ENG.decided:
            ENG.decided[key] = True
            # exact values at small integer divisors (counts, multiplicities)
            for k in (1, 2, 3, 4):
                ENG.add(z3.Implies(b == k, t == a * z3.RealVal(1) / k))
    return t


class SV(object):
    """Symbolic scalar (Int, Real or Bool sorted z3 term)."""
    __slots__ = ('t',)
    __array_priority__ = 1000
    shape = ()
    ndim = 0

    def __init__(self, t):
        self.t = t

    # -- kinds
    @property
    def kind(self):
        if z3.is_bool(self.t):
            return 'bool'
        if z3.is_int(self.t):
            return 'int'
        return 'float'

    @property
    def dtype(self):
        return self.kind

    def __repr__(self):
        return 'SV(%s)' % (self.t,)

    def __hash__(self):
        return hash(self.t.get_id())

    # -- concretisation
    def __bool__(self):
        t = self.t
        if not z3.is_bool(t):
            t = (t != 0)
        return cur().decide(t)

    def __index__(self):
        if not z3.is_int(self.t):
            raise TypeError('symbolic real used as an index')
        return cur().concretize_int(self.t)

    def __int__(self):
        if z3.is_int(self.t):
            return cur().concretize_int(self.t)
        if z3.is_bool(self.t):
            return int(bool(self))
        return cur().concretize_int(z3.ToInt(self.t))   # floor; see astype

    def __float__(self):
        raise NotModelled('float() of a symbolic value')

    def __format__(self, spec):
        return '<sym>'

    # -- arithmetic
    def _bin(self, o, op, rev=False):
        if isinstance(o, SV):
            ot = o.t
        elif getattr(o, '__array_priority__', 0) > 1000:
            return NotImplemented
        elif is_num(o) or hasattr(o, '__index__'):
            if is_special(o):
                return _special_arith(self, o, op, rev)
            ot = lift(o)
        else:
            return NotImplemented
        a, b = (ot, self.t) if rev else (self.t, ot)
        if op == 'add':
            a, b = _coerce2(a, b)
            return SV(a + b)
        if op == 'sub':
            a, b = _coerce2(a, b)
            return SV(a - b)
        if op == 'mul':
            return SV(mul_terms(a, b))
        if op == 'truediv':
            return SV(div_terms(a, b))
        if op == 'floordiv':
            a, b = _coerce2(a, b)
            if z3.is_int(a) and z3.is_int(b):
                return SV(a / b)        # z3 int division (floor for b>0)
            return SV(z3.ToReal(z3.ToInt(div_terms(a, b))))
        if op == 'mod':
            a, b = _coerce2(a, b)
            if z3.is_int(a) and z3.is_int(b):
                return SV(a % b)
            if _is_const_term(b) and _const_val(b) == 1:
                return SV(a - z3.ToReal(z3.ToInt(a)))
            raise NotModelled('real modulo by %s' % b)
        if op == 'pow':
            if _is_const_term(b):
                e = _const_val(b)
                if e.denominator == 1 and 0 <= e <= 4:
                    r = z3.RealVal(1) if not z3.is_int(a) else z3.IntVal(1)
                    for _ in range(int(e)):
                        r = mul_terms(r, a)
                    return SV(r)
                if e == Fraction(1, 2):
                    return SV(uf('SQRT', R, R)(_toreal(a)))
            return SV(uf('POW', R, R, R)(_toreal(_arith(a)),
                                         _toreal(_arith(b))))
        raise NotModelled(op)

    def __add__(self, o): return self._bin(o, 'add')
    def __radd__(self, o): return self._bin(o, 'add', True)
    def __sub__(self, o): return self._bin(o, 'sub')
    def __rsub__(self, o): return self._bin(o, 'sub', True)
    def __mul__(self, o): return self._bin(o, 'mul')
    def __rmul__(self, o): return self._bin(o, 'mul', True)
    def __truediv__(self, o): return self._bin(o, 'truediv')
    def __rtruediv__(self, o): return self._bin(o, 'truediv', True)
    def __floordiv__(self, o): return self._bin(o, 'floordiv')
    def __rfloordiv__(self, o): return self._bin(o, 'floordiv', True)
    def __mod__(self, o): return self._bin(o, 'mod')
    def __rmod__(self, o): return self._bin(o, 'mod', True)
    def __pow__(self, o): return self._bin(o, 'pow')
    def __rpow__(self, o): return self._bin(o, 'pow', True)

    def __neg__(self):
        return SV(-_arith(self.t))

    def __pos__(self):
        return self

    def __abs__(self):
        t = _arith(self.t)
        return SV(z3.If(t >= 0, t, -t))

    # -- comparison
    def _cmp(self, o, op):
        if isinstance(o, SV):
            ot = o.t
        elif getattr(o, '__array_priority__', 0) > 1000:
            return NotImplemented
        elif is_num(o) or hasattr(o, '__index__'):
            if is_special(o):
                return _special_cmp(self, o, op)
            ot = lift(o)
        elif o is None:
            return op == 'ne'
        else:
            return NotImplemented
        a, b = self.t, ot
        if z3.is_bool(a) and z3.is_bool(b):
            if op == 'eq':
                return SV(a == b)
            if op == 'ne':
                return SV(a != b)
        a, b = _coerce2(a, b)
        return SV({'lt': a < b, 'le': a <= b, 'gt': a > b, 'ge': a >= b,
                   'eq': a == b, 'ne': a != b}[op])

    def __lt__(self, o): return self._cmp(o, 'lt')
    def __le__(self, o): return self._cmp(o, 'le')
    def __gt__(self, o): return self._cmp(o, 'gt')
    def __ge__(self, o): return self._cmp(o, 'ge')
    def __eq__(self, o): return self._cmp(o, 'eq')
    def __ne__(self, o): return self._cmp(o, 'ne')

    # -- logic (numpy-style on bools)
    def _logic(self, o, op):
        if isinstance(o, SV):
            ot = o.t
        elif isinstance(o, (bool, int)):
            ot = z3.BoolVal(bool(o))
        else:
            return NotImplemented
        a, b = self.t, ot
        if not (z3.is_bool(a) and z3.is_bool(b)):
            raise NotModelled('bitwise operation on symbolic integers')
        return SV({'and': z3.And(a, b), 'or': z3.Or(a, b),
                   'xor': z3.Xor(a, b)}[op])

    def __and__(self, o): return self._logic(o, 'and')
    def __rand__(self, o): return self._logic(o, 'and')
    def __or__(self, o): return self._logic(o, 'or')
    def __ror__(self, o): return self._logic(o, 'or')
    def __xor__(self, o): return self._logic(o, 'xor')
    def __rxor__(self, o): return self._logic(o, 'xor')

    def __invert__(self):
        if not z3.is_bool(self.t):
            raise NotModelled('~ on a symbolic integer')
        return SV(z3.Not(self.t))

    # -- numpy scalar look-alikes
    def astype(self, dt):
        from . import symnp
        return symnp.cast_scalar(self, symnp.norm_dtype(dt))

    def item(self):
        return self

    def copy(self):
        return self


def _toreal(t):
    t = _arith(t)
    return _int_to_real(t) if z3.is_int(t) else t


def _special_arith(sv, o, op, rev):
    """finite (symbolic) real combined with +-inf / nan (IEEE rules, as far as
    the result does not depend on the finite operand)."""
    if o != o:
        return o
    if op in ('add',):
        return o
    if op == 'sub':
        return o if rev else -o
    if op == 'truediv' and not rev:
        return 0.0
    if op == 'mul':
        s = cur().decide(_arith(sv.t) > 0)
        if s:
            return o
        z = cur().decide(_arith(sv.t) == 0)
        return float('nan') if z else -o
    raise NotModelled('symbolic %s with %r' % (op, o))


def _special_cmp(sv, o, op):
    if o != o:
        return op == 'ne'
    if o == INF:
        return {'lt': True, 'le': True, 'gt': False, 'ge': False,
                'eq': False, 'ne': True}[op]
    return {'lt': False, 'le': False, 'gt': True, 'ge': True,
            'eq': False, 'ne': True}[op]


def truth(x):
    """z3 Bool term for a python bool / SV bool."""
    if isinstance(x, SV):
        t = x.t
        return t if z3.is_bool(t) else (t != 0)
    if isinstance(x, z3.BoolRef):
        return x
    return z3.BoolVal(bool(x))


def sv_if(c, a, b):
    """If-then-else over python/SV scalars without forking."""
    ct = truth(c)
    ct = z3.simplify(ct)
    if z3.is_true(ct):
        return a
    if z3.is_false(ct):
        return b
    if is_special(a) or is_special(b):
        return a if cur().decide(ct) else b
    ta, tb = lift(a), lift(b)
    if z3.is_bool(ta) and z3.is_bool(tb):
        return SV(z3.If(ct, ta, tb))
    ta, tb = _coerce2(ta, tb)
    return SV(z3.If(ct, ta, tb))


# ---------------------------------------------------------------------------
# the engine
# ---------------------------------------------------------------------------

class Finding(object):
    def __init__(self, label, kind, detail, trace, model):
        self.label, self.kind, self.detail = label, kind, detail
        self.trace, self.model = trace, model

    def as_dict(self):
        return dict(label=self.label, kind=self.kind, detail=self.detail,
                    trace=list(self.trace), model=self.model)


class Engine(object):
    def __init__(self, name='', query_timeout_ms=20000, max_paths=4000,
                 max_decisions=3000, seed=0, max_int_values=6):
        self.name = name
        self.query_timeout_ms = query_timeout_ms
        self.max_paths = max_paths
        self.max_decisions = max_decisions
        self.max_int_values = max_int_values
        self.seed = seed
        self.stats = dict(paths=0, completed=0, cut=0, aborted=0,
                          notmodelled=0, decisions=0, forks=0,
                          q_sat=0, q_unsat=0, q_unknown=0, solver_s=0.0,
                          obligations=0, discharged=0, failed=0,
                          inconclusive=0, budget_exhausted=0)
        self.findings = []
        self.split_depth = None
        self.split_prefixes = []
        self._finding_keys = {}
        self.notes = []            # NotModelled / inconclusive messages
        self.samples = []          # a few explored paths, for evidence
        self.labels = {}           # obligation label -> [n, discharged]
        self.functions = set()     # code objects entered (set by tracer)
        self._reset_path([])

    # -- path state
    def _reset_path(self, prefix):
        self.prefix = prefix
        self.trace = []
        self.alts = []
        self.solver = z3.Solver()
        self.solver.set('timeout', self.query_timeout_ms)
        self.solver.set('random_seed', self.seed)
        self.pc = []
        self.model = None
        self.decided = {}
        self.fresh_n = {}
        self.inputs = []           # (name, term) registered for models
        self.apps = []             # (name, term) uninterpreted applications
        self.path_notes = []
        self.uncertain = False
        self.sym_decisions = 0
        self.path_obligations = 0

    # -- fresh symbols (deterministic names along a path)
    def fresh(self, base, sort='real'):
        n = self.fresh_n.get(base, 0)
        self.fresh_n[base] = n + 1
        name = '%s#%d' % (base, n)
        return self.named(name, sort)

    def named(self, name, sort='real'):
        if sort == 'real':
            t = z3.Real(name)
        elif sort == 'int':
            t = z3.Int(name)
        else:
            t = z3.Bool(name)
        self.inputs.append((name, t))
        return SV(t)

    def app(self, fname, args, sort='real'):
        """Application of an uninterpreted function to scalar arguments; the
        k-th application of `fname` along the path is registered as
        fname@k for the replay tables."""
        ts = []
        for a in args:
            t = lift(a)
            t = _arith(t)
            if z3.is_int(t):
                t = z3.ToReal(t)
            ts.append(t)
        rs = {'real': R, 'int': I, 'bool': B}[sort]
        f = uf(fname, *([R] * len(ts) + [rs]))
        t = f(*ts)
        n = self.fresh_n.get('@' + fname, 0)
        self.fresh_n['@' + fname] = n + 1
        self.apps.append(('%s@%d' % (fname, n), t))
        return SV(t)

    # -- solver
    def _check(self, extra=None):
        t0 = time.time()
        if extra is not None:
            self.solver.push()
            self.solver.add(extra)
        r = self.solver.check()
        m = None
        if r == z3.sat:
            m = self.solver.model()
        if extra is not None:
            self.solver.pop()
        self.stats['solver_s'] += time.time() - t0
        s = str(r)
        self.stats['q_' + s] += 1
        return s, m

    def add(self, t):
        self.pc.append(t)
        self.solver.add(t)
        m = self.model
        if m is not None:
            try:
                if not z3.is_true(m.eval(t, model_completion=True)):
                    self.model = None
            except z3.Z3Exception:
                self.model = None

    def assume(self, cond, check=False):
        t = z3.simplify(truth(cond))
        if z3.is_true(t):
            return
        if z3.is_false(t):
            raise PathAbort('assumption false')
        self.add(t)
        if check:
            r, _ = self._check()
            if r == 'unsat':
                raise PathAbort('assumptions unsatisfiable')

    def _side(self, t):
        """which truth value of t the cached model witnesses (or None)."""
        m = self.model
        if m is None:
            return None
        try:
            v = m.eval(t, model_completion=True)
        except z3.Z3Exception:
            return None
        if z3.is_true(v):
            return True
        if z3.is_false(v):
            return False
        return None

    def decide(self, t):
        t = z3.simplify(t)
        if z3.is_true(t):
            return True
        if z3.is_false(t):
            return False
        tid = t.get_id()
        if tid in self.decided:
            return self.decided[tid]
        self.stats['decisions'] += 1
        i = len(self.trace)
        if i >= self.max_decisions:
            raise BeyondBound('decision budget')
        new_model = None
        if i >= len(self.prefix) and self.split_depth is not None and \
                i >= self.split_depth:
            raise SplitHere()
        if i < len(self.prefix):
            v = self.prefix[i]
            if self._side(t) is not v:
                self.model = None
            new_model = self.model
        else:
            if self.model is None:
                r0, m0 = self._check()
                if r0 == 'unsat':
                    raise PathAbort('path condition unsatisfiable')
                if r0 == 'sat':
                    self.model = m0
            known = self._side(t)
            models = {}
            if known is not None:
                models[known] = self.model
                other = not known
                ro, mo = self._check(t if other else z3.Not(t))
                if ro == 'unknown':
                    self.uncertain = True
                can = {known: True, other: ro != 'unsat'}
                if ro == 'sat':
                    models[other] = mo
            else:
                rt, mt = self._check(t)
                rf, mf = self._check(z3.Not(t))
                if rt == 'unknown' or rf == 'unknown':
                    self.uncertain = True
                can = {True: rt != 'unsat', False: rf != 'unsat'}
                if rt == 'sat':
                    models[True] = mt
                if rf == 'sat':
                    models[False] = mf
            if can[True] and can[False]:
                v = True
                self.alts.append(self.trace + [False])
                self.stats['forks'] += 1
            elif can[True]:
                v = True
            elif can[False]:
                v = False
            else:
                raise PathAbort('path condition unsatisfiable')
            new_model = models.get(v)
        self.trace.append(v)
        self.sym_decisions += 1
        self.decided[tid] = v
        self.pc.append(t if v else z3.Not(t))
        self.solver.add(t if v else z3.Not(t))
        self.model = new_model
        return v

    def proves(self, t):
        """does the path condition entail t (one solver query)?"""
        r, _ = self._check(z3.Not(t))
        return r == 'unsat'

    def mul_lemmas(self, t, a, b):
        """sound facts about an (uninterpreted) product, derived from what
        the path condition entails about the factors - a cut from the
        nonlinear theory into the linear pool, listed in the evidence."""
        key = ('mul-lemma', t.get_id())
        if key in self.decided:
            return
        self.decided[key] = True
        facts = [z3.Implies(b == 1, t == a), z3.Implies(a == 1, t == b),
                 z3.Implies(z3.Or(a == 0, b == 0), t == 0)]
        an, bn = self.proves(a >= 0), self.proves(b >= 0)
        if an and bn:
            facts.append(t >= 0)
            if self.proves(a > 0) and self.proves(b > 0):
                facts.append(t > 0)
            if self.proves(a <= 1):
                facts.append(t <= b)
            if self.proves(b <= 1):
                facts.append(t <= a)
        for f in facts:
            self.add(f)
        self.stats['lemma_cuts'] = self.stats.get('lemma_cuts', 0) + len(facts)

    def scoped(self, cond):
        """context manager: obligations inside hold under an additional
        assumption that is dropped again afterwards (no decisions inside)."""
        eng = self

        class _Scope(object):
            def __enter__(self_):
                eng.solver.push()
                t = z3.simplify(truth(cond))
                eng.solver.add(t)
                eng.pc.append(t)
                self_.n_pc = len(eng.pc)
                self_.n_trace = len(eng.trace)
                self_.model = eng.model
                eng.model = None
                return self_

            def __exit__(self_, et, ev, tb):
                eng.solver.pop()
                del eng.pc[self_.n_pc - 1:]
                eng.model = self_.model
                if et is None and len(eng.trace) != self_.n_trace:
                    raise NotModelled('symbolic decision inside a scoped '
                                      'assumption')
                return False
        return _Scope()

    def concretize_int(self, t):
        t = z3.simplify(t)
        if z3.is_int_value(t):
            return t.as_long()
        for _ in range(self.max_int_values):
            if self.model is None:
                r, m = self._check()
                if r != 'sat':
                    raise PathAbort('no value')
                self.model = m
            v = self.model.eval(t, model_completion=True).as_long()
            if self.decide(t == v):
                return v
        raise BeyondBound('more than %d values for %s'
                          % (self.max_int_values, t))

    # -- obligations
    def model_dict(self, m):
        d = {}
        for name, t in self.inputs + self.apps:
            v = m.eval(t, model_completion=True)
            d[name] = _model_value(v)
        return d

    def require(self, cond, label, detail=None):
        self.stats['obligations'] += 1
        self.path_obligations += 1
        lab = self.labels.setdefault(label, [0, 0])
        lab[0] += 1
        t = z3.simplify(truth(cond))
        if z3.is_true(t):
            self.stats['discharged'] += 1
            lab[1] += 1
            return True
        r, m = self._check(z3.Not(t))
        if r == 'unsat':
            self.stats['discharged'] += 1
            lab[1] += 1
            return True
        if r == 'sat':
            self.stats['failed'] += 1
            if self._seen_finding(label, detail):
                return False
            # prefer a counterexample of moderate magnitude (replay uses
            # real exp/log); the verdict does not depend on it
            tame = [z3.And(x >= -40, x <= 40) for _, x in self.inputs +
                    self.apps if z3.is_real(x)]
            if tame:
                r2, m2 = self._check(z3.And(z3.Not(t), *tame))
                if r2 == 'sat':
                    m = m2
            # generic values: distinct inputs, so that permutations or mixed
            # up fields are visible in the concrete replay
            reals = [x for _, x in self.inputs if z3.is_real(x)]
            generic = None
            if len(reals) > 1:
                generic = z3.And(z3.Not(t), z3.Distinct(*reals),
                                 *[z3.And(x >= -40, x <= 40) for x in reals])
                r2, m2 = self._check(generic)
                if r2 == 'sat':
                    m = m2
                else:
                    generic = None
            try:
                m3 = realistic_model(self, generic if generic is not None
                                     else z3.Not(t))
            except z3.Z3Exception:
                m3 = None
            if m3 is not None:
                m = m3
            f = Finding(label, 'obligation', detail or str(t)[:300],
                        list(self.trace), self.model_dict(m))
            # further counterexamples with clearly different values (a
            # concrete replay can sit on a rounding boundary)
            f.alt_models = []
            vals = [x for _, x in self.inputs + self.apps if z3.is_real(x)]
            prev = [m]
            for _ in range(2):
                if not vals:
                    break
                far = z3.And(*[z3.Or(*[z3.Or(
                    x >= pm.eval(x, model_completion=True) + z3.RealVal('1/4'),
                    x <= pm.eval(x, model_completion=True) - z3.RealVal('1/4'))
                    for x in vals[:40]]) for pm in prev])
                r4, m4 = self._check(z3.And(z3.Not(t), far, *[
                    z3.And(x >= -40, x <= 40) for x in vals]))
                if r4 != 'sat':
                    break
                prev.append(m4)
                f.alt_models.append(self.model_dict(m4))
            self.findings.append(f)
            return False
        self.stats['inconclusive'] += 1
        self.notes.append('INCONCLUSIVE %s: solver answered unknown' % label)
        return None

    def require_nra(self, alg, goal, label, detail=None, timeout_ms=None):
        timeout_ms = timeout_ms or getattr(self, 'nra_timeout_ms', 30000)
        """Discharge an exp-domain obligation on the UF-free pool (nlsat)."""
        from . import nra
        self.stats['obligations'] += 1
        self.path_obligations += 1
        lab = self.labels.setdefault(label, [0, 0])
        lab[0] += 1
        t0 = time.time()
        r, dt, m = nra.prove(alg.ctx, self.pc, goal, timeout_ms=timeout_ms)
        self.stats['solver_s'] += time.time() - t0
        self.stats['q_' + r] += 1
        self.stats['nra_queries'] = self.stats.get('nra_queries', 0) + 1
        if r == 'unsat':
            self.stats['discharged'] += 1
            lab[1] += 1
            return True
        if r == 'sat':
            self.stats['failed'] += 1
            if self._seen_finding(label, detail):
                return False
            base = {}
            if self.model is None:
                rr, mm = self._check()
                if rr == 'sat':
                    self.model = mm
            if self.model is not None:
                base = self.model_dict(self.model)
            merged = dict(base)
            ctx = alg.ctx
            for name, t in self.inputs + self.apps:
                k = t.get_id()
                v = None
                if k in ctx.evars:
                    e = _approx(m.eval(ctx.evars[k], model_completion=True))
                    if e is not None and e > 0:
                        import math
                        lv = Fraction(math.log(float(e))).limit_denominator(
                            10**12)
                        v = [lv.numerator, lv.denominator]
                elif k in ctx.rtwin:
                    e = _approx(m.eval(ctx.rtwin[k], model_completion=True))
                    if e is not None and e.denominator == 1:
                        v = int(e)
                elif z3.is_real(t) and z3.is_const(t):
                    e = _approx(m.eval(t, model_completion=False))
                    if e is not None:
                        v = [e.numerator, e.denominator]
                if v is not None:
                    merged[name] = v
            f = Finding(label, 'nra', detail or str(goal)[:300],
                        list(self.trace), merged)
            f.alt_models = [base]
            self.findings.append(f)
            return False
        self.stats['inconclusive'] += 1
        self.notes.append('INCONCLUSIVE %s: nlsat answered unknown' % label)
        return None

    def fail(self, label, detail):
        """An unconditional failure on this (feasible) path, e.g. an
        exception escaping the code under analysis."""
        self.stats['obligations'] += 1
        self.path_obligations += 1
        lab = self.labels.setdefault(label, [0, 0])
        lab[0] += 1
        r, m = self._check()
        if r == 'unsat':
            self.stats['discharged'] += 1
            lab[1] += 1
            return
        if r == 'sat':
            self.stats['failed'] += 1
            if self._seen_finding(label, detail):
                return
            self.findings.append(Finding(label, 'exception', detail,
                                         list(self.trace), self.model_dict(m)))
        else:
            self.stats['inconclusive'] += 1
            self.notes.append('INCONCLUSIVE %s: unknown' % label)

    def _seen_finding(self, label, detail):
        """only the first few failures per (label, window) carry a model"""
        key = label
        if 'window=' in (detail or ''):
            key = (label, detail.rsplit('window=', 1)[1])
        n = self._finding_keys.get(key, 0)
        self._finding_keys[key] = n + 1
        return n >= 2

    def ok(self, label):
        """Record a trivially discharged obligation (concrete check passed)."""
        self.stats['obligations'] += 1
        self.stats['discharged'] += 1
        self.path_obligations += 1
        lab = self.labels.setdefault(label, [0, 0])
        lab[0] += 1
        lab[1] += 1

    # -- exploration
    def explore(self, fn, stop_on_first=False, root=None, split_depth=None):
        """Run fn(engine) once per feasible path (depth first).  root: only
        paths below this decision prefix; split_depth: stop at that many
        decisions and record the prefix (pre-pass of a split job)."""
        global ENG
        work = [list(root) if root else []]
        self.split_depth = split_depth
        rnd = random.Random(self.seed)
        while work:
            if self.stats['paths'] >= self.max_paths:
                self.stats['budget_exhausted'] += len(work)
                self.notes.append('INCONCLUSIVE: path budget %d exhausted, '
                                  '%d prefixes left' % (self.max_paths,
                                                        len(work)))
                break
            prefix = work.pop()
            self._reset_path(prefix)
            self.stats['paths'] += 1
            ENG = self
            status = 'completed'
            prof = self.stats['paths'] <= 3
            if prof:
                import sys as _sys

                def _tracer(frame, event, arg, _fs=self.functions):
                    if event == 'call':
                        fnm = frame.f_code.co_filename
                        if '/nautilus/' in fnm and '/verif/' not in fnm:
                            _fs.add('%s:%s' % (
                                fnm.split('/nautilus/', 1)[1],
                                frame.f_code.co_qualname
                                if hasattr(frame.f_code, 'co_qualname')
                                else frame.f_code.co_name))
                _sys.setprofile(_tracer)
            try:
                fn(self)
            except SplitHere:
                status = 'split'
                self.split_prefixes.append(list(self.trace))
            except PathAbort:
                status = 'aborted'
            except BeyondBound as e:
                status = 'cut'
                self.path_notes.append('cut: %s' % e)
                self.notes.append('NOTE: cut: %s' % (str(e)[:120],))
                if os.environ.get('SYMX_DEBUG_CUT'):
                    import traceback
                    traceback.print_exc()
            except NotModelled as e:
                status = 'notmodelled'
                self.notes.append('NOT-MODELLED: %s' % (e,))
            finally:
                ENG = None
                if prof:
                    _sys.setprofile(None)
            if status == 'split':
                self.stats['paths'] -= 1
            else:
                self.stats[status] += 1
            if self.uncertain:
                self.notes.append('INCONCLUSIVE: unknown during a decision')
                self.stats['inconclusive'] += 1
            alts = self.alts
            if self.seed:
                rnd.shuffle(alts)
            work.extend(alts)
            if len(self.samples) < 4 and status == 'completed':
                self.samples.append(dict(
                    decisions=''.join('T' if v else 'F' for v in self.trace),
                    obligations=self.path_obligations, status=status))
            if status == 'completed' and self.sym_decisions > 0 and \
                    self.path_obligations > 0:
                self.stats['nontrivial'] = self.stats.get('nontrivial', 0) + 1
            if stop_on_first and self.findings:
                break
        return self

    def summary(self):
        d = dict(self.stats)
        d['name'] = self.name
        d['findings'] = [f.as_dict() for f in self.findings]
        d['notes'] = sorted(set(self.notes))[:50]
        d['samples'] = self.samples
        d['labels'] = self.labels
        d['functions_entered'] = sorted(self.functions)
        return d


def _model_value(v):
    if z3.is_int_value(v):
        return v.as_long()
    if z3.is_rational_value(v):
        f = Fraction(v.numerator_as_long(), v.denominator_as_long())
        return [f.numerator, f.denominator]
    if z3.is_true(v):
        return True
    if z3.is_false(v):
        return False
    if z3.is_algebraic_value(v):
        a = v.approx(20)
        f = Fraction(a.numerator_as_long(), a.denominator_as_long())
        return [f.numerator, f.denominator]
    return str(v)


def _approx(v):
    try:
        if z3.is_int_value(v):
            return Fraction(v.as_long())
        if z3.is_rational_value(v):
            return Fraction(v.numerator_as_long(), v.denominator_as_long())
        if z3.is_algebraic_value(v):
            a = v.approx(20)
            return Fraction(a.numerator_as_long(), a.denominator_as_long())
    except Exception:
        pass
    return None


# ---------------------------------------------------------------------------
# realistic models: uninterpreted exp/log/logsumexp/product terms pinned to
# the true function values at the model's inputs, so that a concrete run with
# real numpy follows the same path
# ---------------------------------------------------------------------------

_FN_NAMES = ('EXP', 'LOG', 'SQRT', 'MUL', 'DIV', 'POW')


def _is_fn_app(t):
    if not (z3.is_app(t) and t.num_args() > 0 and
            t.decl().kind() == z3.Z3_OP_UNINTERPRETED):
        return False
    n = t.decl().name()
    return n in _FN_NAMES or n.startswith('LSE')


def _collect(terms):
    """function applications in terms (inner first) and free constants"""
    seen, apps, consts = set(), [], []
    stack = [(t, False) for t in terms]
    while stack:
        t, done = stack.pop()
        i = t.get_id()
        if done:
            if _is_fn_app(t):
                apps.append(t)
            continue
        if i in seen:
            continue
        seen.add(i)
        if z3.is_const(t) and t.decl().kind() == z3.Z3_OP_UNINTERPRETED:
            consts.append(t)
        stack.append((t, True))
        for c in t.children():
            stack.append((c, False))
    return apps, consts


def _true_value(name, vals):
    import math
    try:
        if name == 'EXP':
            return math.exp(vals[0])
        if name == 'LOG':
            return math.log(vals[0]) if vals[0] > 0 else None
        if name == 'SQRT':
            return math.sqrt(vals[0]) if vals[0] >= 0 else None
        if name == 'MUL':
            return vals[0] * vals[1]
        if name == 'DIV':
            return vals[0] / vals[1] if vals[1] != 0 else None
        if name == 'POW':
            return vals[0] ** vals[1] if vals[0] >= 0 else None
        if name.startswith('LSE'):
            mx = max(vals)
            return mx + math.log(sum(math.exp(v - mx) for v in vals))
    except (OverflowError, ValueError):
        return None
    return None


def _num(v):
    f = _approx(v)
    return None if f is None else float(f)


def realistic_model(eng, extra=None, rounds=12):
    """a model of pc (and extra) in which every exp/log/logsumexp/product
    application has its true value at the model's own argument values (so a
    concrete run with real numpy follows the same path); None if the
    refinement loop does not converge."""
    terms = list(eng.pc) + ([extra] if extra is not None else [])
    apps, consts = _collect(terms)
    reals = [c for c in consts if z3.is_real(c)]
    s = eng.solver
    s.push()
    try:
        if extra is not None:
            s.add(extra)
        if not apps:
            tame = [z3.And(c >= -10, c <= 10) for c in reals]
            s.push()
            if tame:
                s.add(*tame)
            r = s.check()
            m = s.model() if r == z3.sat else None
            s.pop()
            if m is None and s.check() == z3.sat:
                m = s.model()
            return m
        tame = [z3.And(c >= -10, c <= 10) for c in reals]
        tame += [z3.And(x >= -10, x <= 10) for _, x in eng.apps
                 if z3.is_real(x)]
        lemmas = []
        use_tame = bool(tame)
        for _ in range(rounds):
            s.push()
            s.add(*lemmas) if lemmas else None
            if use_tame:
                s.add(*tame)
            r = s.check()
            if r != z3.sat and use_tame:
                s.pop()
                use_tame = False
                continue
            if r != z3.sat:
                s.pop()
                return None
            m = s.model()
            s.pop()
            strong, mism = [], 0
            ok = True
            cache = {}

            def tval(t):
                """numeric value of t with true function values inside"""
                i = t.get_id()
                if i in cache:
                    return cache[i]
                r_ = None
                if _is_fn_app(t):
                    vs = [tval(x) for x in t.children()]
                    if all(v is not None for v in vs):
                        r_ = _true_value(t.decl().name(), vs)
                elif z3.is_bool(t):
                    r_ = None
                elif t.num_args() == 0 or \
                        t.decl().kind() == z3.Z3_OP_UNINTERPRETED:
                    r_ = _num(m.eval(t, model_completion=True))
                else:
                    vs = [tval(x) for x in t.children()
                          if not z3.is_bool(x)]
                    k = t.decl().kind()
                    if any(v is None for v in vs):
                        r_ = None
                    elif k == z3.Z3_OP_ADD:
                        r_ = sum(vs)
                    elif k == z3.Z3_OP_SUB:
                        r_ = vs[0] - sum(vs[1:])
                    elif k == z3.Z3_OP_MUL:
                        r_ = 1.0
                        for v in vs:
                            r_ *= v
                    elif k == z3.Z3_OP_UMINUS:
                        r_ = -vs[0]
                    elif k in (z3.Z3_OP_DIV,):
                        r_ = vs[0] / vs[1] if vs[1] != 0 else None
                    elif k == z3.Z3_OP_TO_REAL:
                        r_ = vs[0]
                    elif k == z3.Z3_OP_TO_INT:
                        import math
                        r_ = float(math.floor(vs[0]))
                    else:
                        r_ = _num(m.eval(t, model_completion=True))
                cache[i] = r_
                return r_
            for c in reals:
                strong.append(c == m.eval(c, model_completion=True))
            for a in apps:
                tv = tval(a)
                if tv is None or tv != tv or abs(tv) > 1e100:
                    ok = False
                    break
                pin = a == _float_term(tv)
                strong.append(pin)
                cur = _num(m.eval(a, model_completion=True))
                if cur is None or abs(cur - tv) > 1e-9 * max(1.0, abs(tv)):
                    mism += 1
                    argeq = [x == m.eval(x, model_completion=True)
                             for x in a.children()]
                    vals = [_num(m.eval(x, model_completion=True))
                            for x in a.children()]
                    if all(v is not None for v in vals):
                        tv0 = _true_value(a.decl().name(), vals)
                        if tv0 is not None and tv0 == tv0 and \
                                abs(tv0) < 1e100:
                            lemmas.append(z3.Implies(
                                z3.And(*argeq), a == _float_term(tv0)))
                            lemmas.extend(_shape_lemmas(a, vals, tv0))
            if not ok:
                # unusable valuation (log of a non-positive number, ...):
                # exclude it and retry
                if reals:
                    lemmas.append(z3.Or(*[c != m.eval(c, model_completion=True)
                                          for c in reals[:6]]))
                    continue
                return None
            if mism == 0:
                return m
            s.push()
            s.add(*lemmas)
            s.add(*strong)
            r2 = s.check()
            m2 = s.model() if r2 == z3.sat else None
            s.pop()
            if m2 is not None:
                return m2
        return None
    finally:
        s.pop()


def _shape_lemmas(a, vals, tv):
    """sound facts about the real function around the current argument
    values (incremental linearisation: tangent planes for products,
    monotonicity / convexity for exp, log, logsumexp)"""
    name = a.decl().name()
    xs = a.children()
    out = []
    if name == 'MUL':
        x, y = xs
        x0, y0 = _float_term(vals[0]), _float_term(vals[1])
        plane = x0 * y + y0 * x - x0 * y0
        same = z3.Or(z3.And(x >= x0, y >= y0), z3.And(x <= x0, y <= y0))
        opp = z3.Or(z3.And(x >= x0, y <= y0), z3.And(x <= x0, y >= y0))
        out.append(z3.Implies(same, a >= plane))
        out.append(z3.Implies(opp, a <= plane))
        if z3.eq(x, y):
            out.append(a >= 0)
        out.append(z3.Implies(z3.Or(x == 0, y == 0), a == 0))
        out.append(z3.Implies(z3.Or(z3.And(x > 0, y > 0),
                                    z3.And(x < 0, y < 0)), a > 0))
        out.append(z3.Implies(z3.Or(z3.And(x > 0, y < 0),
                                    z3.And(x < 0, y > 0)), a < 0))
    elif name == 'DIV':
        x, y = xs
        x0, y0 = _float_term(vals[0]), _float_term(vals[1])
        q0 = _float_term(tv)
        # q*y = x: tangent planes of the product q*y at (q0, y0)
        plane = q0 * y + y0 * a - q0 * y0
        same = z3.Or(z3.And(a >= q0, y >= y0), z3.And(a <= q0, y <= y0))
        opp = z3.Or(z3.And(a >= q0, y <= y0), z3.And(a <= q0, y >= y0))
        out.append(z3.Implies(z3.And(same, y != 0), x >= plane))
        out.append(z3.Implies(z3.And(opp, y != 0), x <= plane))
    elif name == 'EXP':
        x = xs[0]
        x0, e0 = _float_term(vals[0]), _float_term(tv)
        out.append(z3.Implies(x <= x0, a <= e0))
        out.append(z3.Implies(x >= x0, a >= e0))
        out.append(a >= e0 * (1 + x - x0))        # convexity
    elif name == 'LOG':
        x = xs[0]
        x0, l0 = _float_term(vals[0]), _float_term(tv)
        out.append(z3.Implies(z3.And(x > 0, x <= x0), a <= l0))
        out.append(z3.Implies(x >= x0, a >= l0))
        if vals[0] > 0:
            out.append(z3.Implies(x > 0, a <= l0 + (x - x0) *
                                  _float_term(1.0 / vals[0])))
    elif name == 'SQRT':
        x = xs[0]
        x0, r0 = _float_term(vals[0]), _float_term(tv)
        out.append(z3.Implies(z3.And(x >= 0, x <= x0), a <= r0))
        out.append(z3.Implies(x >= x0, a >= r0))
    elif name.startswith('LSE'):
        lo = z3.And(*[x <= _float_term(v) for x, v in zip(xs, vals)])
        hi = z3.And(*[x >= _float_term(v) for x, v in zip(xs, vals)])
        out.append(z3.Implies(lo, a <= _float_term(tv)))
        out.append(z3.Implies(hi, a >= _float_term(tv)))
        for x in xs:
            out.append(a >= x)
    return out


def _float_term(v):
    return z3.RealVal(str(Fraction(v).limit_denominator(10 ** 12)))
